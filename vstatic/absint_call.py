"""Calls: argument binding, method dispatch, constructors, super(), builtins."""

from __future__ import annotations

import ast
from dataclasses import replace

from .aval import (ANY, AVal, BOOL, BOTTOM, FLOAT, INT, NONE, STR, TYPE, clip, const, deeper, elem_of,
                   fresh, join, join_all, key_of, mk, relabel)
from .absint import LT, PC, Frame
from .absint_expr import ONLY_ON, TYPE_TAGS, taint1
from .program import ClassInfo, FuncInfo, norm
from .pymodel import METHODS_BY_TAG, MUTATOR_METHODS

NEWMARK = "$new"


class CallMixin:
    # -- argument evaluation ---------------------------------------------------------------------
    def eval_args(self, node: ast.Call, env, frame):
        pos, star = [], None
        for a in node.args:
            if isinstance(a, ast.Starred):
                sv = self.ev(a.value, env, frame)
                self.iter_ops(sv, a.value, env, frame)
                if sv.tup is not None and star is None:
                    pos.extend(sv.tup)
                else:
                    el = self.iter_elem(sv, a.value, env, frame)
                    sv2 = replace(sv, elem=el if not el.is_bottom else None) if sv.elem is None and not el.is_bottom and not sv.is_json else sv
                    star = sv2 if star is None else join(star, sv2)
            else:
                v = self.ev(a, env, frame)
                if star is not None:
                    star = join(star, mk("tuple", elem=v))
                else:
                    pos.append(v)
        kw, dstar = {}, None
        for k in node.keywords:
            v = self.ev(k.value, env, frame)
            if k.arg is None:
                if v.is_json and v.taint == 2:
                    self.raise_exc(frame, "TypeError", node, env, True, reason="** of input node of unknown type")
                dstar = v if dstar is None else join(dstar, v)
            else:
                kw[k.arg] = v
        return pos, kw, star, dstar

    def default_value(self, func: FuncInfo, expr):
        cache = self.__dict__.setdefault("_defaults", {})
        k = id(expr)
        if k not in cache:
            fake = type("F", (), {})()
            fake.module = func.module; fake.qualname = func.qualname; fake.file = func.file; fake.cls = func.cls
            v = self.ev(expr, {PC: False, LT: False}, Frame(fake, ()))
            if v.types & {"list", "dict", "set"}:
                # a mutable default is created once and shared by every call: module-level state
                v = replace(v, org=frozenset({("global", 0)}))
            cache[k] = v
        return cache[k]

    def bind(self, func: FuncInfo, pos, kw, star, dstar):
        params = func.params
        out = {}
        positional = [p for p in params if p.kind in ("POSITIONAL_ONLY", "POSITIONAL_OR_KEYWORD")]
        varpos = next((p for p in params if p.kind == "VAR_POSITIONAL"), None)
        varkw = next((p for p in params if p.kind == "VAR_KEYWORD"), None)
        kwonly = [p for p in params if p.kind == "KEYWORD_ONLY"]
        extra = []
        for i, v in enumerate(pos):
            if i < len(positional):
                out[positional[i].name] = v
            else:
                extra.append(v)
        if extra and varpos is None:
            return None
        filled_by_star = []
        if star is not None:
            el = elem_of(star)
            for p in positional[len(pos):]:
                if p.name not in kw:
                    out[p.name] = el
                    filled_by_star.append(p.name)
        if varpos is not None:
            if star is not None:
                e = join_all(extra + [elem_of(star)])
                out[varpos.name] = mk("tuple", elem=e if not e.is_bottom else None, taint=star.taint and 1,
                                      nonempty=bool(extra))
            else:
                out[varpos.name] = mk("tuple", tup=tuple(extra), nonempty=bool(extra))
        extra_kw = {}
        for k, v in kw.items():
            p = next((p for p in params if p.name == k and p.kind in ("POSITIONAL_OR_KEYWORD", "KEYWORD_ONLY")), None)
            if p is None:
                if varkw is None:
                    return None
                extra_kw[k] = v
            else:
                if k in out and k not in filled_by_star:
                    return None
                out[k] = v
        for p in positional + kwonly:
            if p.name in out and p.name not in filled_by_star:
                continue
            if dstar is not None:
                v = elem_of(dstar)
                if p.default is not None:
                    v = join(v, self.default_value(func, p.default))
                out[p.name] = join(out[p.name], v) if p.name in out else v
            elif p.name in out:
                if p.default is not None:
                    out[p.name] = join(out[p.name], self.default_value(func, p.default))
            elif p.default is not None:
                out[p.name] = self.default_value(func, p.default)
            else:
                return None
        if varkw is not None:
            vals = list(extra_kw.values())
            ne = bool(vals)
            t = 0
            if dstar is not None:
                vals.append(elem_of(dstar))
                t = dstar.taint and 1
            e = join_all(vals) if vals else None
            keys = join_all([const(k) for k in extra_kw]) if extra_kw else None
            if dstar is not None:
                kd = key_of(dstar)
                kd = replace(kd, types=frozenset({"str"}), elem=None, key=None) if not kd.is_bottom else STR
                keys = kd if keys is None else join(keys, kd)
            out[varkw.name] = mk("dict", key=keys if keys is not None else None, elem=e, nonempty=ne, taint=t)
        return out

    def invoke(self, func: FuncInfo, pos, kw, star, dstar, node, env, frame):
        bound = self.bind(func, list(pos), dict(kw or {}), star, dstar)
        if bound is None:
            return None
        text = norm(node) if not isinstance(node, ast.stmt) else norm(node)
        site = (frame.func.qualname, f"{frame.func.file}:{getattr(node, 'lineno', 0)}", text, "call")
        chain = frame.chain + (site,)
        summ = self.call_function(func, bound, False, chain)
        self.event("call", frame, node, callee=func.qualname)
        for key, (w, t) in list(summ.raises.items()):
            self.raise_exc(frame, key[0], node, env, t, witness=(site,) + tuple(w))
        return summ

    # -- the Call expression -------------------------------------------------------------------------
    _FACT_SAFE_CALLS = {"len", "isinstance", "enumerate", "zip", "range", "list", "tuple", "dict", "set", "str", "repr", "type", "iter",
                        "sorted", "reversed", "any", "all", "sum", "min", "max", "bool", "int", "float", "id", "hash", "callable", "print", "format"}

    def _drop_attr_facts(self, node, env):
        """A call that could rebind an attribute invalidates the `x.a is truthy` facts about its
        receiver / name arguments (sound: facts are only ever removed)."""
        facts = env.get("$attrfacts")
        if not facts:
            return
        f = node.func
        if isinstance(f, ast.Name) and f.id in self._FACT_SAFE_CALLS and f.id not in env:
            return
        touched = set()
        if isinstance(f, ast.Attribute):
            b = f.value
            while isinstance(b, (ast.Attribute, ast.Subscript, ast.Call)):
                b = b.func if isinstance(b, ast.Call) else b.value
            if isinstance(b, ast.Name):
                touched.add(b.id)
        for a in list(node.args) + [k.value for k in node.keywords]:
            for n in ast.walk(a):
                if isinstance(n, ast.Name):
                    touched.add(n.id)
        keep = frozenset(x for x in facts if x[0] not in touched)
        if keep != facts:
            env["$attrfacts"] = keep

    def e_Call(self, node: ast.Call, env, frame):
        self._drop_attr_facts(node, env)
        f = node.func
        # super().m(...)
        if isinstance(f, ast.Attribute) and isinstance(f.value, ast.Call) and isinstance(f.value.func, ast.Name) and f.value.func.id == "super":
            pos, kw, star, dstar = self.eval_args(node, env, frame)
            return self.call_super(f.attr, pos, kw, star, dstar, node, env, frame)
        if isinstance(f, ast.Attribute):
            recv = self.ev(f.value, env, frame)
            pos, kw, star, dstar = self.eval_args(node, env, frame)
            if self._strict_bottom(pos, kw, star, dstar):
                return BOTTOM
            return self.call_method(recv, f.attr, pos, kw, star, dstar, node, env, frame)
        if isinstance(f, ast.Name) and f.id not in env:
            h = getattr(self, "b_" + f.id, None)
            ent = self.prog.resolve_name(frame.func.module, f.id)
            if h is not None and not isinstance(ent, (ClassInfo, FuncInfo)):
                return h(node, env, frame)
        fv = self.ev(f, env, frame)
        pos, kw, star, dstar = self.eval_args(node, env, frame)
        if self._strict_bottom(pos, kw, star, dstar):
            return BOTTOM
        return self.call_value(fv, pos, kw, star, dstar, node, env, frame)

    def _strict_bottom(self, pos, kw, star, dstar):
        """Strict evaluation: when an argument never yields a value the call does not happen."""
        return any(v.is_bottom for v in pos) or any(v.is_bottom for v in kw.values()) or (star is not None and star.is_bottom) or (dstar is not None and dstar.is_bottom)

    def call_value(self, fv: AVal, pos, kw, star, dstar, node, env, frame):
        outs = []
        for tag in sorted(fv.types):
            if tag.startswith("cls:"):
                outs.append(self.construct(self.prog.classes[tag[4:]], pos, kw, star, dstar, node, env, frame))
            elif tag.startswith("func:"):
                s = self.invoke(self.prog.functions[tag[5:]], pos, kw, star, dstar, node, env, frame)
                if s is not None:
                    outs.append(s.ret)
                else:
                    self.raise_exc(frame, "TypeError", node, env, any(max_t(v) for v in list(pos) + list(kw.values())), reason="arguments do not bind")
            elif tag.startswith("bfunc:"):
                outs.append(self.call_builtin(tag[6:], pos, kw, star, dstar, node, env, frame))
            elif tag == "type":
                names = [c[1] for c in (fv.cset() or ({fv.const} if fv.const else set())) if c[0] == "type"]
                if not names:
                    outs.append(ANY)
                for n in names:
                    outs.append(self.call_builtin(n, pos, kw, star, dstar, node, env, frame))
            elif tag == "bmeth" and fv.cset():
                for cc in sorted(fv.cset(), key=str):
                    outs.append(self.call_value(replace(fv, types=frozenset({"bmeth"}), const=cc), pos, kw, star, dstar, node, env, frame))
            elif tag == "bmeth":
                c = fv.const
                if c and c[0] == "meth":
                    fn = self.prog.functions[c[1]]
                    s = self.invoke(fn, [fv.tup[0]] + list(pos), kw, star, dstar, node, env, frame)
                    if s is not None:
                        outs.append(s.ret)
                    else:
                        self.raise_exc(frame, "TypeError", node, env, any(max_t(v) for v in list(pos) + list(kw.values())) or (star is not None and star.taint > 0) or (dstar is not None and dstar.taint > 0), reason="arguments do not bind")
                elif c and c[0] == "bmeth":
                    outs.append(self.builtin_method(fv.tup[0], c[2], pos, kw, star, node, env, frame, None))
                elif fv.cset():
                    for cc in fv.cset():
                        pass
                    outs.append(ANY)
                else:
                    outs.append(ANY)
            elif tag == "lambda":
                outs.append(self.call_lambda(fv, pos, node, env, frame))
            elif tag.startswith("inst:"):
                outs.append(self.call_method(replace(fv, types=frozenset({tag})), "__call__", pos, kw, star, dstar, node, env, frame))
            elif tag == "json":
                if fv.taint == 2:
                    self.raise_exc(frame, "TypeError", node, env, True, reason="calling an input node")
                outs.append(mk("any", taint=min(fv.taint, 1)))
            elif tag == "none":
                self.raise_exc(frame, "TypeError", node, env, False, reason="calling None")
            else:
                t = max([fv.taint and 1] + [v.taint and 1 for v in pos] + [v.taint and 1 for v in kw.values()])
                org = set()
                for v in list(pos) + list(kw.values()):
                    org |= deeper(v.all_orgs())
                self.event("unmodelled", frame, node, what=f"call of unknown value {fv.short()}")
                outs.append(AVal(types=frozenset({"any"}), org=frozenset(org), taint=t))
        return join_all([o for o in outs if o is not None]) if outs else BOTTOM

    def call_lambda(self, fv, pos, node, env, frame):
        lam = self.__dict__.get("_lambdas", {}).get(fv.const[1]) if fv.const else None
        if lam is None:
            return ANY
        lnode, lenv, lframe = lam
        e = dict(lenv)
        for p, v in zip(lnode.args.args, pos):
            e[p.arg] = v
        e[PC] = env.get(PC); e[LT] = env.get(LT)
        return self.ev(lnode.body, e, frame)

    # -- method calls --------------------------------------------------------------------------------------
    def call_method(self, recv: AVal, name, pos, kw, star, dstar, node, env, frame):
        if recv.is_bottom:
            return BOTTOM
        outs = []
        seen = set()
        recv_node = node.func.value if isinstance(node.func, ast.Attribute) else None
        for tag in sorted(recv.types):
            if tag.startswith("inst:"):
                c0 = self.prog.classes.get(tag[5:])
                if c0 is None:
                    outs.append(ANY); continue
                fv = recv.field(name)
                if fv is not None and not c0.lookup_method(name):
                    outs.append(self.call_value(fv, pos, kw, star, dstar, node, env, frame)); continue
                found = False
                rclasses = self._runtime_classes(recv, tag[5:])
                groups = {}
                for k in rclasses:
                    owner, v = k.lookup(name)
                    if isinstance(v, FuncInfo):
                        groups.setdefault(v.qualname, (v, []))[1].append(k)
                for k in rclasses:
                    owner, v = k.lookup(name)
                    if isinstance(v, FuncInfo):
                        found = True
                        sk = (v.qualname, k.qualname if v.kind in ("classmethod",) else "")
                        if sk in seen:
                            continue
                        seen.add(sk)
                        if recv.fields is not None:
                            selfv = recv
                        else:
                            # generic receiver: one analysis per implementation, with self ranging over
                            # every run-time class that resolves the method to this implementation
                            ks = groups[v.qualname][1]
                            selfv = replace(recv, types=frozenset(f"inst:{x.qualname}" for x in ks), elem=None, key=None, tup=None,
                                            const=recv.const if recv.const and recv.const[0] == "enum" else None)
                        if v.kind == "staticmethod":
                            s = self.invoke(v, pos, kw, star, dstar, node, env, frame)
                        elif v.kind == "classmethod":
                            s = self.invoke(v, [mk(f"cls:{k.qualname}")] + list(pos), kw, star, dstar, node, env, frame)
                        elif v.kind in ("property", "classproperty"):
                            pv = self.attr(selfv, name, node, env, frame)
                            outs.append(self.call_value(pv, pos, kw, star, dstar, node, env, frame)); continue
                        else:
                            s = self.invoke(v, [selfv] + list(pos), kw, star, dstar, node, env, frame)
                        if s is not None:
                            outs.append(s.ret)
                            if recv.fields is not None and s.self_out is not None and recv_node is not None and isinstance(recv_node, ast.Name) and recv_node.id in env and v.kind == "method":
                                env[recv_node.id] = clip(s.self_out) if env[recv_node.id].fields is not None else env[recv_node.id]
                    elif v is not None:
                        found = True
                        av = self.class_attr_value(owner, name, frame, node, exact=True)
                        outs.append(self.call_value(av, pos, kw, star, dstar, node, env, frame))
                if not found:
                    h = self.hint(tag[5:], name, recv)
                    if h is not None:
                        outs.append(self.call_value(h, pos, kw, star, dstar, node, env, frame))
                    elif any(name in k.all_fields() for k in self._runtime_classes(recv, tag[5:])):
                        outs.append(self.call_value(AVal(types=frozenset({"any"}), org=deeper(recv.org)), pos, kw, star, dstar, node, env, frame))
                    else:
                        self.raise_exc(frame, "AttributeError", node, env, False, reason=f"no method {name} on {tag[5:]}")
            elif tag.startswith("cls:"):
                c = self.prog.classes[tag[4:]]
                owner, v = c.lookup(name)
                if isinstance(v, FuncInfo):
                    if v.kind == "classmethod":
                        s = self.invoke(v, [mk(tag)] + list(pos), kw, star, dstar, node, env, frame)
                    elif v.kind == "classproperty":
                        pv = self.class_attr_value(c, name, frame, node, env=env, clsval=mk(tag))
                        outs.append(self.call_value(pv, pos, kw, star, dstar, node, env, frame)); continue
                    else:
                        s = self.invoke(v, pos, kw, star, dstar, node, env, frame)
                    if s is not None:
                        outs.append(s.ret)
                    else:
                        self.raise_exc(frame, "TypeError", node, env, any(max_t(x) for x in list(pos) + list(kw.values())), reason="arguments do not bind")
                elif v is not None:
                    av = self.class_attr_value(c, name, frame, node, exact=True, env=env)
                    outs.append(self.call_value(av, pos, kw, star, dstar, node, env, frame))
                else:
                    self.raise_exc(frame, "AttributeError", node, env, False, reason=f"class {c.qualname} has no attribute {name}")
            elif tag == "type":
                tn = recv.const[1] if recv.const and recv.const[0] == "type" else None
                if tn is not None and name in METHODS_BY_TAG.get(tn, set()):
                    outs.append(mk("any", taint=recv.taint and 1))
                elif name in ("mro", "__subclasses__"):
                    outs.append(mk("list"))
                else:
                    self.raise_exc(frame, "AttributeError", node, env, bool(recv.taint), reason=f"type object has no attribute {name}")
            elif tag == "mod" or tag.startswith("bfunc:"):
                fv = self.attr(replace(recv, types=frozenset({tag})), name, node, env, frame)
                outs.append(self.call_value(fv, pos, kw, star, dstar, node, env, frame))
            elif tag in METHODS_BY_TAG or tag == "json":
                outs.append(self.builtin_method(replace(recv, types=frozenset({tag})), name, pos, kw, star, node, env, frame, recv_node))
            elif tag == "any":
                outs.append(self.any_method(recv, name, pos, kw, star, dstar, node, env, frame))
            elif tag.startswith("exc:") or tag in ("slice", "lambda", "bmeth", "bytes"):
                outs.append(ANY)
            else:
                outs.append(ANY)
        return join_all([o for o in outs if o is not None]) if outs else BOTTOM

    def any_method(self, recv, name, pos, kw, star, dstar, node, env, frame):
        """Receiver of unknown type: mutator names count as mutations; repository methods of
        that name are analysed as possible targets (name-based class-hierarchy fallback)."""
        if name in MUTATOR_METHODS:
            self.event("mut", frame, node, how=f"call:{name}", target=recv.short(), org=sorted(recv.org), types=sorted(recv.types))
            for v in pos:
                self.record_store(frame, node, recv, v)
        outs = [AVal(types=frozenset({"any"}), org=deeper(recv.org) | frozenset().union(*[deeper(v.all_orgs()) for v in pos] or [frozenset()]), taint=max([recv.taint and 1] + [v.taint and 1 for v in pos]))]
        if self.config.get("fallback", True) and not name.startswith("__") and name not in METHODS_BY_TAG["dict"] | METHODS_BY_TAG["list"] | METHODS_BY_TAG["str"]:
            for fn in self.prog.methods_named(name):
                if fn.kind in ("method",):
                    selfv = AVal(types=frozenset({f"inst:{fn.cls.qualname}"}), org=recv.org, taint=recv.taint and 1)
                    s = self.invoke(fn, [selfv] + list(pos), kw, star, dstar, node, env, frame)
                    if s is not None:
                        outs.append(s.ret)
        return join_all(outs)

    def call_super(self, name, pos, kw, star, dstar, node, env, frame):
        K = frame.func.cls
        recv = env.get(frame.selfname) if frame.selfname else None
        if K is None or recv is None:
            return ANY
        is_cls = bool(recv.cls_classes())
        runtime = []
        for cq in (recv.cls_classes() if is_cls else recv.inst_classes()):
            c = self.prog.classes.get(cq)
            if c is None:
                continue
            cands = [c] if (is_cls or recv.fields is not None) else c.all_subclasses()
            runtime.extend(k for k in cands if K in k.mro)
        if not runtime:
            runtime = [K]
        targets = {}
        none_found = False
        for R in runtime:
            idx = R.mro.index(K)
            fn = None
            for k in R.mro[idx + 1:]:
                if name in k.methods:
                    fn = k.methods[name]
                    break
            if fn is None:
                none_found = True
            else:
                targets[fn.qualname] = fn
        outs = []
        for fn in targets.values():
            if fn.kind == "staticmethod" or name == "__new__":
                s = self.invoke(fn, pos, kw, star, dstar, node, env, frame)
            else:
                s = self.invoke(fn, [recv] + list(pos), kw, star, dstar, node, env, frame)
            if s is not None:
                outs.append(s.ret)
                if name == "__init__" and s.self_out is not None and frame.selfname in env:
                    env[frame.selfname] = clip(s.self_out)
        if none_found:
            if name == "__new__":
                clsv = pos[0] if pos else recv
                for cq in clsv.cls_classes():
                    outs.append(mk(f"inst:{cq}", fields=((NEWMARK, const(True)),)))
            elif name in ("__init__", "__init_subclass__"):
                outs.append(NONE)
            elif name == "__eq__":
                outs.append(BOOL)
            elif name == "__repr__":
                outs.append(STR)
            else:
                self.raise_exc(frame, "AttributeError", node, env, False, reason=f"super() has no {name}")
        return join_all(outs) if outs else BOTTOM

    # -- constructors --------------------------------------------------------------------------------------------
    def keeps_record(self, C: ClassInfo):
        rc = self.config.get("record_classes")
        if rc is not None:
            return C.qualname in rc
        return C.module.name == "data" or C.qualname in (
            "rules.RuleTest", "rules.RuleTestFailureItem", "schema.ValidatedData", "datapath.DataPath")

    def construct(self, C: ClassInfo, pos, kw, star, dstar, node, env, frame):
        if C.is_exception():
            return mk(f"exc:{C.name}")
        if C.is_enum():
            if len(pos) == 1:
                a = pos[0]
                if a.const is not None and a.const[0] == "enum" and a.const[1] == C.qualname:
                    return a
                if a.inst_classes() == [C.qualname] and not (a.types - {f"inst:{C.qualname}"}):
                    return a
                if a.has_const:
                    for mname, expr in C.attrs.items():
                        if isinstance(expr, ast.Constant) and expr.value == a.const_value() and type(expr.value) == type(a.const_value()):
                            return mk(f"inst:{C.qualname}", const=("enum", C.qualname, mname))
            self.raise_exc(frame, "ValueError", node, env, any(max_t(v) == 2 for v in pos), reason="not a valid enum value")
            return mk(f"inst:{C.qualname}")
        new_fn = C.lookup_method("__new__")
        objs = []
        if new_fn is not None:
            s = self.invoke(new_fn, [mk(f"cls:{C.qualname}")] + list(pos), kw, star, dstar, node, env, frame)
            rets = getattr(s, "rets", None) if s is not None else None
            if s is None:
                return BOTTOM
            parts = list(rets) if rets else [s.ret]
            for r in parts:
                if r.is_bottom:
                    continue
                if r.field(NEWMARK) is not None:
                    objs.append(("fresh", r))
                else:
                    objs.append(("existing", r))
        else:
            objs.append(("fresh", mk(f"inst:{C.qualname}", fields=())))
        init = C.lookup_method("__init__")
        outs = []
        guarded = self.config.get("newinit_guarded", set())
        for kind, obj in objs:
            if kind == "existing" and (C.qualname in guarded or any(k.qualname in guarded for k in C.mro)):
                outs.append(obj)
                continue
            if kind == "existing" and not obj.inst_classes():
                outs.append(obj)
                continue
            if init is None:
                outs.append(obj)
                continue
            target = obj
            if kind == "existing":
                # __init__ runs on the returned pre-existing object when it is an instance of C
                keep = {t for t in obj.types if t.startswith("inst:")}
                target = replace(obj, types=frozenset(keep))
                self.event("reinit", frame, node, cls=C.qualname, target=obj.short(), org=sorted(obj.org))
            s = self.invoke(init, [target] + list(pos), kw, star, dstar, node, env, frame)
            if s is None:
                self.raise_exc(frame, "TypeError", node, env, any(max_t(v) for v in list(pos) + list(kw.values())), reason=f"arguments do not bind to {C.qualname}.__init__")
                continue
            if s.ret.is_bottom and s.self_out is None:
                continue  # constructor always raises
            res = s.self_out if s.self_out is not None else target
            if kind == "fresh" and res.fields is not None:
                if self.keeps_record(C):
                    res = replace(res, fields=tuple((k, v) for k, v in res.fields if k != NEWMARK))
                else:
                    # exact class, field contents summarised (read back through the field hints)
                    res = replace(res, fields=())
            outs.append(join(res, obj) if kind == "existing" else res)
        return clip(join_all(outs)) if outs else BOTTOM

    # -- builtin methods on str / list / dict / tuple / set / input nodes ------------------------------------------
    def builtin_method(self, recv: AVal, name, pos, kw, star, node, env, frame, recv_node):
        tag = next(iter(recv.types))
        t2 = recv.taint == 2
        args = list(pos)
        a0 = args[0] if args else None
        a1 = args[1] if len(args) > 1 else None

        def upd(newv):
            if recv_node is not None and isinstance(recv_node, ast.Name) and recv_node.id in env:
                cur = env[recv_node.id]
                if cur.types == recv.types or len(cur.types) == 1:
                    env[recv_node.id] = clip(newv)
                else:
                    env[recv_node.id] = clip(join(cur, newv))

        def mut():
            self.event("mut", frame, node, how=f"call:{name}", target=recv.short(), org=sorted(recv.org), types=sorted(recv.types))

        if tag == "json":
            if t2:
                self.raise_many(frame, ("AttributeError", "TypeError"), node, env, True, reason=f"method .{name}() on input node of unknown type")
            if name in MUTATOR_METHODS:
                mut()
                for v in args:
                    self.record_store(frame, node, recv, v)
            d = AVal(types=frozenset({"json" if t2 else "any"}), org=deeper(recv.org), taint=recv.taint)
            # the call succeeds only on the JSON types that have the method: narrow the receiver
            if recv_node is not None and isinstance(recv_node, ast.Name) and recv_node.id in env and env[recv_node.id].is_json:
                cur = env[recv_node.id]
                if name in ONLY_ON:
                    ok = ONLY_ON[name]
                    if name == "pop" and len(args) == 2:
                        ok = {"dict"}
                    from .aval import narrow_json
                    env[recv_node.id] = narrow_json(cur, ok)
                elif name in METHODS_BY_TAG["str"]:
                    from .aval import narrow_json
                    env[recv_node.id] = narrow_json(cur, {"str"})
            if name in ("get", "pop", "setdefault"):
                return join(d, a1) if a1 is not None else (join(d, NONE) if name == "get" else d)
            if name == "items":
                return mk("iter", elem=mk("tuple", tup=(d, d)), taint=recv.taint, org=frozenset())
            if name in ("keys", "values"):
                return mk("iter", elem=d, taint=recv.taint)
            if name == "copy":
                from .aval import shallow
                return shallow(recv)
            if name in ("lower", "upper", "strip", "replace", "format", "lstrip", "rstrip", "join", "title", "capitalize"):
                return mk("str", taint=recv.taint)
            if name in ("split", "rsplit", "splitlines"):
                return mk("list", elem=mk("str", taint=recv.taint), nonempty=name != "splitlines", taint=recv.taint)
            if name in ("startswith", "endswith", "isdigit"):
                return replace(BOOL, taint=1)
            return mk("any", taint=min(recv.taint, 1), org=deeper(recv.org))

        if name not in METHODS_BY_TAG.get(tag, set()):
            self.raise_exc(frame, "AttributeError", node, env, t2, reason=f"{tag} has no method {name}")
            return BOTTOM

        tt = recv.taint
        if tag == "str":
            for v in args:
                if v.is_json and v.taint == 2:
                    self.raise_exc(frame, "TypeError", node, env, True, reason=f"str.{name}() with input node of unknown type")
            if name == "join" and a0 is not None:
                self.iter_ops(a0, node, env, frame)
                el = self.iter_elem(a0, node, env, frame)
                if not el.is_bottom and el.taint == 2 and not el.only("str"):
                    self.raise_exc(frame, "TypeError", node, env, True, reason="str.join of input nodes of unknown type")
                return mk("str", taint=max(tt and 1, a0.taint and 1, el.taint and 1 if not el.is_bottom else 0))
            if name in ("split", "rsplit", "splitlines", "partition"):
                return mk("list", elem=mk("str", taint=tt), nonempty=name != "splitlines", taint=tt)
            if name in ("startswith", "endswith", "isdigit", "isnumeric", "isalpha", "isalnum", "isspace"):
                return replace(BOOL, taint=tt and 1)
            if name in ("find", "count"):
                return replace(INT, taint=tt and 1)
            if name == "index":
                if tt == 2:
                    self.raise_exc(frame, "ValueError", node, env, True, reason="str.index on input string")
                return replace(INT, taint=tt and 1)
            if name in ("format", "format_map"):
                return mk("str", taint=max([tt and 1] + [v.taint and 1 for v in args]))
            if recv.has_const and all(v.has_const for v in args) and name in ("lower", "upper", "strip", "replace"):
                try:
                    return replace(const(getattr(recv.const_value(), name)(*[v.const_value() for v in args])), taint=tt)
                except Exception:
                    pass
            return mk("str", taint=max([tt] + [v.taint and 1 for v in args]))

        if tag in ("list", "set"):
            el = elem_of(recv) if (recv.elem is not None or recv.tup) else BOTTOM
            if name in ("append", "add", "insert"):
                mut()
                v = a0 if name != "insert" else (a1 if a1 is not None else ANY)
                if v is None:
                    v = ANY
                self.record_store(frame, node, recv, v)
                if tag == "set":
                    self.hash_ops(v, node, env, frame)
                e = join(el, v)
                upd(replace(recv, elem=e, tup=None, nonempty=True, taint=max(recv.taint, 1 if (env.get(LT) or env.get(PC)) else 0)))
                return NONE
            if name in ("extend", "update"):
                mut()
                if a0 is not None:
                    self.iter_ops(a0, node, env, frame)
                    ev_ = self.iter_elem(a0, node, env, frame)
                    self.record_store(frame, node, recv, ev_)
                    e = join(el, ev_)
                    upd(replace(recv, elem=e if not e.is_bottom else None, tup=None, nonempty=recv.nonempty or a0.nonempty,
                                taint=max(recv.taint, a0.taint and 1, 1 if env.get(LT) else 0)))
                return NONE
            if name in ("pop", "remove", "sort", "reverse", "clear", "discard"):
                mut()
                if name == "pop":
                    if t2 and not recv.nonempty:
                        self.raise_exc(frame, "IndexError", node, env, True, reason="pop from possibly empty input list")
                    upd(replace(recv, nonempty=False, tup=None, elem=el if not el.is_bottom else None))
                    return el if not el.is_bottom else ANY
                if name == "remove" and t2:
                    self.raise_exc(frame, "ValueError" if tag == "list" else "KeyError", node, env, True, reason="remove from input container")
                if name == "clear":
                    upd(replace(recv, nonempty=False))
                return NONE
            if name == "copy":
                from .aval import shallow
                return shallow(recv)
            if name in ("index", "count"):
                return INT
            return mk(tag, elem=el if not el.is_bottom else None)

        if tag == "dict":
            el = elem_of(recv) if recv.elem is not None else (mk("json", org=deeper(recv.org), taint=2) if t2 else BOTTOM)
            ky = replace(recv.key, hk=True) if recv.key is not None else (mk("json", org=deeper(recv.org), taint=2, hk=True) if t2 else BOTTOM)
            if a0 is not None and name in ("get", "pop", "setdefault"):
                self.hash_ops(a0, node, env, frame)
            if name == "get":
                d = a1 if a1 is not None else NONE
                return join(el, d) if not el.is_bottom else d
            if name == "pop":
                mut()
                rn = recv_node.id if isinstance(recv_node, ast.Name) else None
                known = a0 is not None and rn is not None and (a0.kof == rn or (a0.has_const and (rn, a0.const_value()) in (env.get("$keys") or ())))
                if a1 is None and t2 and not known:
                    self.raise_exc(frame, "KeyError", node, env, True, reason="dict.pop without default on input mapping")
                if rn is not None and env.get("$keys"):
                    env["$keys"] = frozenset(f for f in env["$keys"] if f[0] != rn)
                upd(replace(recv, nonempty=False))
                return join(el, a1) if a1 is not None else (el if not el.is_bottom else ANY)
            if name == "setdefault":
                mut()
                if a1 is not None:
                    self.record_store(frame, node, recv, a1)
                return join(el, a1 or NONE)
            if name == "popitem":
                mut()
                return mk("tuple", tup=(ky if not ky.is_bottom else ANY, el if not el.is_bottom else ANY))
            if name == "update":
                mut()
                if a0 is not None:
                    self.record_store(frame, node, recv, elem_of(a0))
                    upd(replace(recv, elem=join(el, elem_of(a0)), key=join(ky, key_of(a0)), nonempty=recv.nonempty or a0.nonempty))
                return NONE
            if name == "clear":
                mut()
                upd(replace(recv, nonempty=False))
                return NONE
            if name == "items":
                if ky.is_bottom and el.is_bottom:
                    return mk("iter")
                return mk("iter", elem=mk("tuple", tup=(ky if not ky.is_bottom else ANY, el if not el.is_bottom else ANY)), nonempty=recv.nonempty, taint=tt and max(tt, 1), key=None)
            if name == "keys":
                return mk("iter", elem=ky if not ky.is_bottom else None, nonempty=recv.nonempty, taint=tt)
            if name == "values":
                return mk("iter", elem=el if not el.is_bottom else None, nonempty=recv.nonempty, taint=tt)
            if name == "copy":
                from .aval import shallow
                return shallow(recv)
            return ANY

        if tag in ("tuple", "range"):
            return INT
        return ANY

    # -- builtin functions ---------------------------------------------------------------------------------------------
    def call_builtin(self, name, pos, kw, star, dstar, node, env, frame):
        short = name.split(".")[-1] if name.split(".")[0] in ("builtins",) else name
        h = getattr(self, "bf_" + short.replace(".", "_"), None)
        if h is not None:
            return h(pos, kw, star, node, env, frame)
        t = max([0] + [v.taint and 1 for v in pos] + [v.taint and 1 for v in kw.values()])
        org = set()
        for v in list(pos) + list(kw.values()):
            org |= deeper(v.all_orgs())
        self.event("unmodelled", frame, node, what=f"external call {name}")
        return AVal(types=frozenset({"any"}), org=frozenset(org), taint=t)

    # Name-dispatched builtins needing the raw AST (isinstance narrowing uses type expression)
    def b_isinstance(self, node, env, frame):
        if len(node.args) != 2:
            return BOOL
        v = self.ev(node.args[0], env, frame)
        cv = self.ev(node.args[1], env, frame)
        if cv.is_json and cv.taint == 2 or (cv.tup and any(x.is_json and x.taint == 2 for x in cv.tup)) or (cv.elem is not None and cv.elem.is_json and cv.elem.taint == 2):
            self.raise_exc(frame, "TypeError", node, env, True, reason="isinstance() with input node as class")
        tags = self.type_tags_of_value(cv)
        if tags is None or v.is_bottom:
            return replace(BOOL, taint=taint1(v))
        pos_v = self.narrow_value(v, tags, True)
        neg_v = self.narrow_value(v, tags, False)
        if v.has("any"):
            return replace(BOOL, taint=taint1(v))
        if pos_v.is_bottom:
            return const(False)
        if neg_v.is_bottom and not v.is_json:
            return const(True)
        return replace(BOOL, taint=taint1(v))

    def b_super(self, node, env, frame):
        return ANY

    def b_getattr(self, node, env, frame):
        args = [self.ev(a, env, frame) for a in node.args]
        if len(args) < 2:
            return ANY
        obj, nm = args[0], args[1]
        default = args[2] if len(args) > 2 else None
        names = None
        tg = self.config.get("getattr_targets") or {}
        site = (frame.func.qualname, norm(node))
        if site in tg:
            names = list(tg[site])
        elif nm.has_const and isinstance(nm.const_value(), str):
            names = [nm.const_value()]
        elif nm.cset() and all(c[0] == "c" and isinstance(c[1], str) for c in nm.cset()):
            names = sorted(c[1] for c in nm.cset())
        outs = []
        if names is not None:
            for n in names:
                outs.append(self.attr(obj, n, node, env, frame))
        else:
            # reflection with a non-constant name: every attribute of the receiver's classes
            self.event("reflect", frame, node, name=nm.short(), obj=obj.short(), tainted=nm.taint)
            if nm.taint == 2 and not nm.only("str"):
                self.raise_exc(frame, "TypeError", node, env, True, reason="getattr name is an input node of unknown type")
            self.raise_exc(frame, "AttributeError", node, env, bool(nm.taint), reason="getattr with a non-constant name")
            for cq in obj.cls_classes():
                c = self.prog.classes[cq]
                for nme in _namespace(c):
                    q = _Q(self)
                    with q:
                        outs.append(self.class_attr_value(c, nme, frame, node, env=env, clsval=mk(f"cls:{cq}")))
            for cq in obj.inst_classes():
                c = self.prog.classes[cq]
                for nme in _namespace(c):
                    _, v = c.lookup(nme)
                    if isinstance(v, FuncInfo) and v.kind == "method":
                        outs.append(mk("bmeth", const=("meth", v.qualname), tup=(obj,)))
                    elif isinstance(v, FuncInfo) and v.kind == "classmethod":
                        outs.append(mk("bmeth", const=("meth", v.qualname), tup=(mk(f"cls:{cq}"),)))
            if not outs:
                outs.append(mk("any", taint=nm.taint and 1, org=deeper(obj.org)))
        if default is not None:
            outs.append(default)
        return join_all([o for o in outs if not o.is_bottom]) if outs else BOTTOM

    def b_hasattr(self, node, env, frame):
        for a in node.args:
            self.ev(a, env, frame)
        return BOOL


def _namespace(c: ClassInfo):
    names = []
    for k in c.mro:
        for n in list(k.methods) + list(k.attrs):
            if n not in names and not (n.startswith("__") and n.endswith("__")):
                names.append(n)
    return names


class _Q:
    def __init__(self, interp):
        self.interp = interp

    def __enter__(self):
        self.interp.raise_exc = lambda *a, **k: None
        return self

    def __exit__(self, *a):
        del self.interp.raise_exc
        return False


def max_t(v: AVal):
    from .aval import max_taint
    return max_taint(v)
