"""Unified abstract interpreter (E3 + E4 of DESIGN.md): statements and frames.

Syntax-directed, flow-sensitive, context-sensitive (summaries memoised per
(function, abstract arguments, pc-taint)).  Produces, for one entry context:
  * the exceptions that may escape (with witness chains), split into those that are
    control/data dependent on the tainted input and all of them;
  * mutation events (store / mutating call with the abstract target);
  * store ("escape") events (what is stored into what);
  * resolved call edges.
Expression evaluation lives in absint_expr.py, calls/builtins in absint_call.py.
"""

from __future__ import annotations

import ast
import re
from dataclasses import dataclass, field, replace
from typing import Dict, List, Optional

from . import AnalysisError
from .aval import (ANY, AVal, BOOL, BOTTOM, INT, NONE, STR, clip, const, elem_of, join,
                   join_all, key_of, mk)
from .program import ClassInfo, FuncInfo, Program, head, norm
from .pymodel import exc_is_subclass

PC = "$pc"   # path condition depends on the tainted input
LT = "$lt"   # inside a loop over a tainted iterable


@dataclass
class Summary:
    ret: AVal = BOTTOM
    self_out: Optional[AVal] = None
    raises: Dict[str, tuple] = field(default_factory=dict)      # exc -> (witness, tainted)
    rets: tuple = ()                                            # distinct un-joined return values (<= 8)

    def same(self, other):
        return (
            self.ret == other.ret
            and self.self_out == other.self_out
            and {k: v[1] for k, v in self.raises.items()} == {k: v[1] for k, v in other.raises.items()}
        )


@dataclass
class Event:
    kind: str          # op | raise | mut | store | call | unmodelled
    func: str          # qualname of the function containing the construct
    file: str
    line: int
    text: str          # normalised statement / expression text
    detail: dict

    def key(self):
        return (self.kind, self.func, self.text, tuple(sorted((k, str(v)) for k, v in self.detail.items() if k != "chain")))


class TryRec:
    def __init__(self, handlers):
        self.handlers = handlers       # list of (names or None, handler node)
        self.pending = {}              # idx -> env
        self.caught = {}               # idx -> {exc: (witness, tainted)}


class Frame:
    def __init__(self, func: FuncInfo, ctx_chain):
        self.func = func
        self.trystack: List[TryRec] = []
        self.ret = BOTTOM
        self.rets = []
        self.parts = None
        self.loops = []
        self.self_out = None
        self.raises: Dict[str, tuple] = {}
        self.yields = BOTTOM
        self.chain = ctx_chain         # call chain (tuple of frames text) down to this activation
        self.selfname = None
        self.handling = []             # stack of caught-dicts while inside handler bodies
        self.lambdas = {}


def _live_sources(it):
    """Texts of the objects a `for` iterates *live* (not through a snapshot such as list(..) / sorted(..))."""
    out = set()
    if isinstance(it, (ast.Name, ast.Attribute, ast.Subscript)):
        out.add(norm(it))
    elif isinstance(it, ast.BoolOp):
        for v in it.values:
            out |= _live_sources(v)
    elif isinstance(it, ast.Call):
        if isinstance(it.func, ast.Name) and it.func.id in ("enumerate", "zip", "iter", "reversed"):
            for a in it.args:
                out |= _live_sources(a)
        elif isinstance(it.func, ast.Attribute) and it.func.attr in ("items", "keys", "values") and not it.args:
            out |= _live_sources(it.func.value)
    return out


def env_join(a, b):
    if a is None:
        return b
    if b is None:
        return a
    out = {}
    for k in set(a) | set(b):
        if k in (PC, LT):
            out[k] = bool(a.get(k)) or bool(b.get(k))
        elif k in ("$keys", "$mem", "$attrfacts", "$cobound"):
            out[k] = (a.get(k) or frozenset()) & (b.get(k) or frozenset())
        elif k == "$guards":
            ga, gb = a.get(k) or {}, b.get(k) or {}
            out[k] = {n: g for n, g in ga.items() if n in gb and gb[n][0] is g[0]}
        elif k in a and k in b:
            out[k] = join(a[k], b[k])
        else:
            out[k] = a.get(k) or b.get(k)
    return out


class InterpBase:
    """Statement level.  Mixed with ExprMixin and CallMixin in interp.py."""

    MAX_ROUNDS = 24

    def __init__(self, prog: Program, hints=None, config=None):
        self.prog = prog
        self.hints = hints or {}
        self.config = config or {}
        self.memo: Dict[tuple, Summary] = {}
        self.active = set()
        self.dirty = False
        self.events: Dict[tuple, Event] = {}
        self.contexts = 0
        self.repo_exc_parents = {}
        for c in prog.classes.values():
            if c.is_exception():
                par = c.bases[0].name if c.bases and isinstance(c.bases[0], ClassInfo) else (c.ext_bases[0] if c.ext_bases else "Exception")
                self.repo_exc_parents[c.name] = par
        self.functions_analysed = set()

    # -- driver ------------------------------------------------------------------------
    def run(self, func: FuncInfo, args: Dict[str, AVal], pc=False) -> Summary:
        summ = None
        args = dict(args)
        for prm in func.params:
            if prm.name not in args and prm.default is not None:
                args[prm.name] = self.default_value(func, prm.default)
        self.final = getattr(self, "final", set())
        for _ in range(self.MAX_ROUNDS):
            self.dirty = False
            self.active = set()
            self.stack = []
            self.unstable = set()
            self.round_done = set()
            summ = self.call_function(func, dict(args), pc, chain=())
            if not self.dirty:
                break
        else:
            raise AnalysisError(f"abstract interpretation of {func.qualname} did not stabilise")
        return summ

    def call_function(self, func: FuncInfo, bound: Dict[str, AVal], pc: bool, chain) -> Summary:
        bound = {k: clip(v) for k, v in bound.items()}
        key = (func.qualname, tuple(sorted(bound.items(), key=lambda kv: kv[0])), bool(pc))
        if key in self.active:
            # recursive call: use the provisional summary, ask for another round
            if key not in self.memo:
                self.memo[key] = Summary()
                self.dirty = True
            self.unstable.update(self.stack)
            return self.memo[key]
        if key in self.final:
            return self.memo[key]
        if key in self.round_done:
            if key in self.unstable:
                self.unstable.update(self.stack)
            return self.memo[key]
        if len(chain) > 60:
            raise AnalysisError("call chain too deep: " + " > ".join(c[0] for c in chain[-8:]))
        self.active.add(key)
        self.stack.append(key)
        self.contexts += 1
        self.functions_analysed.add(func.qualname)
        frame = Frame(func, chain)
        env = dict(bound)
        env[PC] = bool(pc)
        env[LT] = False
        if func.cls is not None and func.kind not in ("staticmethod",) and func.params:
            frame.selfname = func.params[0].name
        out_env = self.exec_block(func.node.body, env, frame)
        if out_env is not None:
            # falling off the end returns None
            frame.ret = join(frame.ret, NONE)
            if frame.selfname and frame.selfname in out_env:
                frame.self_out = out_env[frame.selfname] if frame.self_out is None else join(frame.self_out, out_env[frame.selfname])
        ret = frame.ret
        if func.is_generator:
            ret = mk("iter", elem=frame.yields if not frame.yields.is_bottom else None,
                     taint=min(1, frame.yields.taint) if not frame.yields.is_bottom else 0)
        summ = Summary(ret=clip(ret), self_out=clip(frame.self_out) if frame.self_out is not None else None, raises=frame.raises,
                       rets=tuple(clip(r) for r in frame.rets[:8]) if len(frame.rets) <= 8 else ())
        old = self.memo.get(key)
        if old is not None and not old.same(summ):
            # monotone accumulation across rounds
            summ = Summary(
                ret=join(old.ret, summ.ret),
                self_out=summ.self_out if old.self_out is None else (old.self_out if summ.self_out is None else join(old.self_out, summ.self_out)),
                raises={**old.raises, **{k: v for k, v in summ.raises.items() if k not in old.raises or (v[1] and not old.raises[k][1])}},
                rets=summ.rets,
            )
            if not old.same(summ):
                self.dirty = True
        self.memo[key] = summ
        self.active.discard(key)
        self.stack.pop()
        self.round_done.add(key)
        if key not in self.unstable:
            self.final.add(key)
        return summ

    # -- events ------------------------------------------------------------------------
    def event(self, kind, frame: Frame, node, **detail):
        text = head(node) if isinstance(node, ast.stmt) else norm(node)
        ev = Event(kind, frame.func.qualname, frame.func.file, getattr(node, "lineno", 0), text, detail)
        k = ev.key()
        if k not in self.events:
            ev.detail["chain"] = frame.chain
            self.events[k] = ev
        return ev

    def raise_exc(self, frame: Frame, exc: str, node, env, tainted: bool, witness=None, reason=""):
        """An exception `exc` may be raised at `node` with state `env`."""
        if witness is None:
            if tainted or reason == "explicit raise":
                self.event("mayraise", frame, node, exc=exc, tainted=tainted, reason=reason)
            witness = ((frame.func.qualname, f"{frame.func.file}:{getattr(node, 'lineno', 0)}", norm(node) if not isinstance(node, ast.stmt) else head(node), reason),)
        for rec in reversed(frame.trystack):
            for i, (names, h) in enumerate(rec.handlers):
                if names is None or any(exc_is_subclass(exc, n, self.repo_exc_parents) for n in names):
                    rec.pending[i] = env_join(rec.pending.get(i), dict(env))
                    key = (exc, witness[-1][0], witness[-1][2])
                    old = rec.caught.setdefault(i, {}).get(key)
                    if old is None or (tainted and not old[1]):
                        rec.caught[i][key] = (witness, tainted)
                    return
        key = (exc, witness[-1][0], witness[-1][2])
        old = frame.raises.get(key)
        if old is None or (tainted and not old[1]):
            frame.raises[key] = (witness, tainted)

    def raise_many(self, frame, excs, node, env, tainted, reason=""):
        for e in excs:
            self.raise_exc(frame, e, node, env, tainted, reason=reason)

    # -- statements --------------------------------------------------------------------
    def exec_block(self, stmts, env, frame: Frame):
        for st in stmts:
            if env is None:
                return None
            env = self.exec_stmt(st, env, frame)
        return env

    def exec_stmt(self, st, env, frame: Frame):
        m = getattr(self, "x_" + type(st).__name__, None)
        if m is None:
            self.event("unmodelled", frame, st, what=type(st).__name__)
            return env
        return m(st, env, frame)

    def x_Expr(self, st, env, frame):
        if isinstance(st.value, ast.Constant):
            return env
        if isinstance(st.value, (ast.Yield, ast.YieldFrom)):
            v = self.ev(st.value.value, env, frame) if st.value.value is not None else NONE
            if isinstance(st.value, ast.YieldFrom):
                v = elem_of(v)
            frame.yields = join(frame.yields, v)
            return env
        v = self.ev(st.value, env, frame)
        if v.is_bottom and isinstance(st.value, ast.Call):
            return None
        return self.post_success(st.value, dict(env))

    def x_Pass(self, st, env, frame):
        return env

    def x_Import(self, st, env, frame):
        return env

    x_ImportFrom = x_Import
    x_Global = x_Import
    x_Nonlocal = x_Import

    def x_Assert(self, st, env, frame):
        self.ev(st.test, env, frame)
        return env

    def x_Return(self, st, env, frame):
        frame.parts = None
        v = self.ev(st.value, env, frame) if st.value is not None else NONE
        frame.ret = join(frame.ret, v)
        parts = frame.parts if isinstance(st.value, (ast.BoolOp, ast.IfExp)) and frame.parts else [v]
        for pv in parts:
            if pv not in frame.rets and not pv.is_bottom:
                frame.rets.append(pv)
        if frame.selfname and frame.selfname in env:
            s = env[frame.selfname]
            frame.self_out = s if frame.self_out is None else join(frame.self_out, s)
        return None

    def x_Raise(self, st, env, frame):
        if st.exc is None:
            if frame.handling:
                for key, (w, t) in frame.handling[-1].items():
                    self.raise_exc(frame, key[0], st, env, t, witness=w)
            return None
        name = None
        e = st.exc
        if isinstance(e, ast.Call):
            for a in e.args:
                self.ev(a, env, frame)
            e = e.func
        if isinstance(e, ast.Name):
            name = e.id
        elif isinstance(e, ast.Attribute):
            name = e.attr
        if name is None or (name not in self.repo_exc_parents and not name[:1].isupper()):
            v = self.ev(st.exc, env, frame)
            names = [t[4:] for t in v.types if t.startswith("exc:")]
            name = names[0] if names else "Exception"
        tainted = bool(env.get(PC))
        self.event("raise", frame, st, exc=name, tainted=tainted)
        self.raise_exc(frame, name, st, env, tainted, reason="explicit raise")
        return None

    def post_success(self, expr, env):
        """`X["k"]` evaluated without raising: X is a mapping (narrow an input node)."""
        for n in uncond_nodes(expr):
            if isinstance(n, ast.Subscript) and isinstance(n.value, ast.Name) and isinstance(n.slice, ast.Constant) and isinstance(n.slice.value, str):
                cur = env.get(n.value.id)
                if cur is not None and cur.is_json:
                    from .aval import narrow_json
                    nv = narrow_json(cur, {"dict"})
                    if not nv.is_bottom:
                        env[n.value.id] = nv
                        env["$keys"] = (env.get("$keys") or frozenset()) | {(n.value.id, n.slice.value)}
        return env

    def x_Assign(self, st, env, frame):
        v = self.ev(st.value, env, frame)
        if v.is_bottom:
            return None      # the right-hand side never yields a value (it always raises): the path ends here
        env = self.post_success(st.value, dict(env))
        for t in st.targets:
            env = self.assign(t, v, env, frame, st, value_node=st.value)
        return env

    def x_AnnAssign(self, st, env, frame):
        if st.value is None:
            return env
        v = self.ev(st.value, env, frame)
        return self.assign(st.target, v, env, frame, st, value_node=st.value)

    def x_AugAssign(self, st, env, frame):
        cur = self.ev(_as_load(st.target), env, frame)
        rhs = self.ev(st.value, env, frame)
        if cur.types & {"list", "set", "dict"} or cur.is_json or cur.has("any"):
            # in-place for mutable containers
            if cur.all_orgs(0) or cur.is_json or cur.has("any"):
                self.event("mut", frame, st, how="augassign", target=cur.short(), org=sorted(cur.org), types=sorted(cur.types))
            self.record_store(frame, st, cur, elem_of(rhs) if isinstance(st.op, ast.Add) else rhs)
        res = self.binop_result(st.op, cur, rhs, st, env, frame)
        if cur.types & {"list"}:
            e = join(elem_of(cur) if cur.elem is not None or cur.tup else BOTTOM, elem_of(rhs))
            res = replace(cur, elem=e if not e.is_bottom else None, tup=None,
                          nonempty=cur.nonempty or rhs.nonempty,
                          taint=max(cur.taint, min(1, max(rhs.taint, 1 if env.get(LT) else 0))))
        return self.assign(st.target, res, env, frame, st, aug=True)

    def x_Delete(self, st, env, frame):
        for t in st.targets:
            if isinstance(t, ast.Subscript):
                base = self.ev(t.value, env, frame)
                self.ev(t.slice, env, frame)
                self.event("mut", frame, st, how="del-subscript", target=base.short(), org=sorted(base.org), types=sorted(base.types))
            elif isinstance(t, ast.Attribute):
                base = self.ev(t.value, env, frame)
                self.event("mut", frame, st, how="del-attr", target=base.short(), org=sorted(base.org), types=sorted(base.types))
            elif isinstance(t, ast.Name):
                env = dict(env)
                env.pop(t.id, None)
        return env

    def x_If(self, st, env, frame):
        tv = self.ev(st.test, env, frame)
        if tv.is_bottom:
            return None
        truth = self.truth(tv)
        pre_pc = env.get(PC)
        tainted_test = truth is None and tv.taint > 0
        env_t = self.narrow(st.test, env, True, frame) if truth is not False else None
        env_f = self.narrow(st.test, env, False, frame) if truth is not True else None
        if env_t is not None:
            env_t = dict(env_t)
        if env_f is not None:
            env_f = dict(env_f)
        if tainted_test:
            if env_t is not None:
                env_t[PC] = True
            if env_f is not None:
                env_f[PC] = True
        out_t = self.exec_block(st.body, env_t, frame) if env_t is not None else None
        out_f = self.exec_block(st.orelse, env_f, frame) if env_f is not None else None
        out = env_join(out_t, out_f)
        if out is not None:
            out = dict(out)
            both = (out_t is not None or env_t is None) and (out_f is not None or env_f is None)
            out[PC] = bool(pre_pc) if both else bool(pre_pc or tainted_test)
        return out

    def x_For(self, st, env, frame):
        it = self.ev(st.iter, env, frame)
        if it.is_bottom:
            return None
        self.iter_ops(it, st.iter, env, frame)
        el = self.iter_elem(it, st.iter, env, frame)
        if el.is_bottom:
            # nothing to iterate over: the body never runs
            out = dict(env)
            if st.orelse:
                return self.exec_block(st.orelse, out, frame)
            return out
        ks = key_source(st.iter, it)
        if ks and not el.is_bottom and el.kof is None:
            el = replace(el, kof=ks)
        es = enum_source(st.iter)
        if es and el.tup is not None and len(el.tup) == 2:
            el = replace(el, tup=(replace(el.tup[0], kof=es), el.tup[1]))
        its = st.iter
        if isinstance(its, ast.Call) and isinstance(its.func, ast.Attribute) and its.func.attr == "items" and not its.args \
                and el.tup is not None and len(el.tup) == 2 and el.tup[0].kof is None:
            # `for k, v in X.items()`: k is a key of X
            el = replace(el, tup=(replace(el.tup[0], kof=norm(its.func.value)), el.tup[1]))
        pre_lt = env.get(LT)
        loop_env = dict(env)
        src = or_empty_source(st.iter)
        if src and src in loop_env:
            # `for .. in f(X or <empty>)`: the body runs only when X is truthy
            nv = self._truthy_part(loop_env[src])
            if not nv.is_bottom:
                loop_env[src] = nv
        if it.taint > 0:
            loop_env[LT] = True
        exit_env = None if it.nonempty else dict(env)
        for _ in range(6):
            rec = {"brk": None, "cont": None, "src": _live_sources(st.iter), "enum": enum_source(st.iter)}
            frame.loops.append(rec)
            body_env = self.assign(st.target, el, dict(loop_env), frame, st)
            out = self.exec_block(st.body, body_env, frame)
            frame.loops.pop()
            after = env_join(out, rec["cont"])
            if rec["brk"] is not None:
                exit_env = env_join(exit_env, rec["brk"])
            if after is None:
                new_loop = loop_env
            else:
                new_loop = env_join(loop_env, after)
            exit_env_new = env_join(exit_env, after)
            stable = _env_eq(new_loop, loop_env) and _env_eq(exit_env_new, exit_env)
            loop_env, exit_env = new_loop, exit_env_new
            if stable:
                break
        if st.orelse and exit_env is not None:
            exit_env = self.exec_block(st.orelse, exit_env, frame)
        if exit_env is not None:
            exit_env = dict(exit_env)
            exit_env[LT] = bool(pre_lt)
        return exit_env

    def x_While(self, st, env, frame):
        loop_env = dict(env)
        exit_env = None
        for _ in range(6):
            tv = self.ev(st.test, loop_env, frame)
            truth = self.truth(tv)
            rec = {"brk": None, "cont": None}
            frame.loops.append(rec)
            body_in = self.narrow(st.test, loop_env, True, frame) if truth is not False else None
            out = self.exec_block(st.body, dict(body_in), frame) if body_in is not None else None
            frame.loops.pop()
            ex = self.narrow(st.test, loop_env, False, frame) if truth is not True else None
            exit_new = env_join(env_join(exit_env, ex), rec["brk"])
            after = env_join(out, rec["cont"])
            new_loop = env_join(loop_env, after) if after is not None else loop_env
            stable = _env_eq(new_loop, loop_env) and _env_eq(exit_new, exit_env)
            loop_env, exit_env = new_loop, exit_new
            if stable:
                break
        return exit_env

    def x_Break(self, st, env, frame):
        rec = frame.loops[-1]
        rec["brk"] = env_join(rec["brk"], env)
        return None

    def x_Continue(self, st, env, frame):
        rec = frame.loops[-1]
        rec["cont"] = env_join(rec["cont"], env)
        return None

    def x_With(self, st, env, frame):
        for item in st.items:
            v = self.ev(item.context_expr, env, frame)
            if item.optional_vars is not None:
                env = self.assign(item.optional_vars, replace(v, const=None) if v.const else v, env, frame, st)
        return self.exec_block(st.body, env, frame)

    def x_Try(self, st, env, frame):
        handlers = []
        for h in st.handlers:
            if h.type is None:
                names = None
            elif isinstance(h.type, ast.Tuple):
                names = tuple(_exc_name(e) for e in h.type.elts)
            else:
                names = (_exc_name(h.type),)
            handlers.append((names, h))
        rec = TryRec(handlers)
        frame.trystack.append(rec)
        out = self.exec_block(st.body, env, frame)
        frame.trystack.pop()
        if out is not None and st.orelse:
            out = self.exec_block(st.orelse, out, frame)
        for i, (names, h) in enumerate(handlers):
            henv = rec.pending.get(i)
            if henv is None:
                continue
            henv = dict(henv)
            if h.name:
                excs = sorted({k[0] for k in rec.caught.get(i, {})})
                henv[h.name] = mk(*[f"exc:{e}" for e in excs] or ["exc:Exception"])
            frame.handling.append(rec.caught.get(i, {}))
            hout = self.exec_block(h.body, henv, frame)
            frame.handling.pop()
            out = env_join(out, hout)
        if st.finalbody:
            if out is not None:
                out = self.exec_block(st.finalbody, out, frame)
            else:
                self.exec_block(st.finalbody, dict(env), frame)
        return out

    def x_FunctionDef(self, st, env, frame):
        env = dict(env)
        env[st.name] = ANY
        self.event("unmodelled", frame, st, what="nested def")
        return env

    x_ClassDef = x_FunctionDef

    # -- assignment targets ------------------------------------------------------------------
    def assign(self, target, v: AVal, env, frame, st, value_node=None, aug=False):
        if isinstance(target, ast.Name):
            env = dict(env)
            env[target.id] = clip(v)
            nm = target.id
            if env.get("$attrfacts"):
                env["$attrfacts"] = frozenset(f for f in env["$attrfacts"] if f[0] != nm)
            if env.get("$keys"):
                env["$keys"] = frozenset(f for f in env["$keys"] if f[0] != nm)
            if env.get("$mem"):
                pat = re.compile(r"\b" + re.escape(nm) + r"\b")
                kept = frozenset(f for f in env["$mem"] if not pat.search(f[0]) and f[1] != nm)
                if value_node is not None and not aug:
                    vt = norm(value_node)
                    kept |= frozenset((nm, f[1]) for f in env["$mem"] if f[0] == vt and f[1] != nm)
                env["$mem"] = kept
            guards = env.get("$guards")
            if guards and target.id in {n for g in guards.values() for n in g[1]}:
                wrap = (value_node is not None and not aug and isinstance(value_node, ast.List) and len(value_node.elts) == 1
                        and isinstance(value_node.elts[0], ast.Name) and value_node.elts[0].id == target.id)
                if wrap:
                    # `x = [x]`: a remembered test about x now speaks about the only element, x[0]
                    import copy as _copy

                    class _W(ast.NodeTransformer):
                        def visit_Name(self, n):
                            if n.id == nm and isinstance(n.ctx, ast.Load):
                                return ast.Subscript(value=ast.Name(id=nm, ctx=ast.Load()), slice=ast.Constant(value=0), ctx=ast.Load())
                            return n
                    ng = {}
                    for k, g in guards.items():
                        if nm in g[1]:
                            t2 = ast.fix_missing_locations(_W().visit(_copy.deepcopy(g[0])))
                            ng[k] = (t2, g[1])
                        else:
                            ng[k] = g
                    env["$guards"] = ng
                else:
                    env["$guards"] = {k: g for k, g in guards.items() if target.id not in g[1]}
            if value_node is not None and isinstance(value_node, (ast.Compare, ast.BoolOp, ast.UnaryOp, ast.Call)) and v.only("bool"):
                names = _names_in(value_node)
                g = dict(env.get("$guards") or {})
                g[target.id] = (value_node, names)
                env["$guards"] = g
            elif env.get("$guards") and target.id in env["$guards"]:
                g = dict(env["$guards"]); g.pop(target.id); env["$guards"] = g
            return env
        if isinstance(target, (ast.Tuple, ast.List)):
            n = len(target.elts)
            starred = [i for i, e in enumerate(target.elts) if isinstance(e, ast.Starred)]
            self.unpack_ops(v, n, target, env, frame)
            if value_node is not None and isinstance(value_node, ast.Call) and all(isinstance(e, ast.Name) for e in target.elts):
                # names bound together from one call result may be correlated (value, found-flag)
                env = dict(env)
                grp = frozenset(e.id for e in target.elts)
                env["$cobound"] = frozenset(g for g in (env.get("$cobound") or frozenset()) if not (g & grp)) | {grp}
            if v.tup is not None and len(v.tup) == n and not starred:
                parts = list(v.tup)
                rest = (v.types - {"tuple"}) if "tuple" in v.types else frozenset()
                if rest and (rest & {"list", "dict", "set", "iter", "json", "any", "str", "range"}):
                    other = elem_of(replace(v, tup=None, types=frozenset(rest)))
                    if not other.is_bottom:
                        parts = [join(p, other) for p in parts]
            else:
                el = elem_of(v) if not v.is_bottom else BOTTOM
                parts = [el] * n
            for e, p in zip(target.elts, parts):
                if isinstance(e, ast.Starred):
                    env = self.assign(e.value, mk("list", elem=p if not p.is_bottom else None), env, frame, st)
                else:
                    env = self.assign(e, p, env, frame, st)
            return env
        if isinstance(target, ast.Attribute):
            base = self.ev(target.value, env, frame)
            if env.get("$attrfacts"):
                env = dict(env)
                env["$attrfacts"] = frozenset(f for f in env["$attrfacts"] if f[1] != target.attr and f[1].lstrip("_") != target.attr.lstrip("_"))
            return self.store_attr(target, base, v, env, frame, st, aug)
        if isinstance(target, ast.Subscript):
            base = self.ev(target.value, env, frame)
            k = self.ev(target.slice, env, frame)
            if any(norm(target.value) in rec.get("src", ()) for rec in frame.loops) \
                    and (base.types & {"dict"} or (base.is_json and base.taint == 2)) and not (k.kof is not None and k.kof == norm(target.value) and not any(rec.get("enum") == k.kof for rec in frame.loops)) \
                    and not (k.has_const and isinstance(target.value, ast.Name) and (target.value.id, k.const_value()) in (env.get("$keys") or ())):
                # `for i, x in enumerate(d): d[i] = ..` with d a mapping: a key is added while d is iterated
                self.raise_exc(frame, "RuntimeError", st, env, base.taint > 0, reason="item stored under a new key into a mapping that is being iterated (dictionary changed size during iteration)")
            if k.kof is not None and k.kof == norm(target.value):
                self.event("mut", frame, st, how="subscript-store", target=base.short(), org=sorted(base.org), types=sorted(base.types))
                self.record_store(frame, st, base, v)
            else:
                self.store_subscript(target, base, k, v, env, frame, st)
            if isinstance(target.value, ast.Name) and k.has_const and isinstance(k.const_value(), (str, int)):
                env = dict(env)
                env["$keys"] = (env.get("$keys") or frozenset()) | {(target.value.id, k.const_value())}
            if isinstance(target.value, ast.Name) and target.value.id in env:
                cur = env[target.value.id]
                e = join(cur.elem, v) if cur.elem is not None else (join(join_all(cur.tup), v) if cur.tup else v)
                kk = join(cur.key, k) if cur.key is not None else (k if cur.types & {"dict"} else None)
                env = dict(env)
                env[target.value.id] = clip(replace(cur, elem=e, key=kk, tup=None, nonempty=True,
                                                    taint=max(cur.taint, 1 if (env.get(LT) or k.taint) else 0)))
            return env
        if isinstance(target, ast.Starred):
            return self.assign(target.value, v, env, frame, st)
        self.event("unmodelled", frame, st, what="assign target " + type(target).__name__)
        return env

    def store_attr(self, target, base: AVal, v: AVal, env, frame, st, aug=False):
        attr = target.attr
        # property setter?
        setter = None
        for cq in base.inst_classes():
            c = self.prog.classes.get(cq)
            if c is not None:
                s = c.lookup_setter(attr)
                if s is not None:
                    setter = s
        if setter is not None:
            summ = self.invoke(setter, [base, v], {}, None, None, st, env, frame)
            if summ is not None and summ.self_out is not None and isinstance(target.value, ast.Name):
                env = dict(env)
                env[target.value.id] = summ.self_out
            return env
        self.event("mut", frame, st, how="attr-store", attr=attr, target=base.short(), org=sorted(base.org), types=sorted(base.types),
                   fresh_record=base.fields is not None and not base.org)
        self.record_store(frame, st, base, v, attr=attr)
        if base.is_json and base.taint == 2:
            self.raise_exc(frame, "AttributeError", st, env, True, reason="attribute store on input node")
        if isinstance(target.value, ast.Name) and target.value.id in env and base.inst_classes():
            env = dict(env)
            env[target.value.id] = clip(base.with_field(attr, v))
        return env

    def store_subscript(self, target, base: AVal, k: AVal, v: AVal, env, frame, st):
        self.event("mut", frame, st, how="subscript-store", target=base.short(), org=sorted(base.org), types=sorted(base.types))
        self.record_store(frame, st, base, v)
        if base.is_json and base.taint == 2:
            excs = ("TypeError",) if k.only("str") else ("TypeError", "IndexError")
            self.raise_many(frame, excs, st, env, True, reason="subscript store on input node of unknown type")
        for cq in base.inst_classes():
            c = self.prog.classes.get(cq)
            f = c.lookup_method("__setitem__") if c else None
            if f is not None:
                self.invoke(f, [base, k, v], {}, None, None, st, env, frame)

    def record_store(self, frame, st, target: AVal, value: AVal, attr=None):
        vorg = value.all_orgs()
        if vorg or target.org:
            self.event("store", frame, st, target_org=sorted(target.org), value_org=sorted(vorg), attr=attr or "", target=target.short(), value=value.short())


_NAMES_CACHE = {}


def _names_in(node):
    hit = _NAMES_CACHE.get(id(node))
    if hit is None or hit[0] is not node:
        hit = (node, frozenset(n.id for n in ast.walk(node) if isinstance(n, ast.Name)))
        _NAMES_CACHE[id(node)] = hit
    return hit[1]


def uncond_nodes(expr):
    """Sub-expressions evaluated whenever `expr` is evaluated without raising."""
    stack = [expr]
    while stack:
        n = stack.pop()
        yield n
        if isinstance(n, ast.IfExp):
            stack.append(n.test)
        elif isinstance(n, ast.BoolOp):
            stack.append(n.values[0])
        elif isinstance(n, (ast.Lambda,)):
            continue
        elif isinstance(n, (ast.ListComp, ast.SetComp, ast.DictComp, ast.GeneratorExp)):
            stack.append(n.generators[0].iter)
        else:
            stack.extend(ast.iter_child_nodes(n))


_WRAPPERS = {"list", "tuple", "sorted", "iter", "reversed", "set"}


def _unwrap_iter(e):
    while True:
        if isinstance(e, ast.Call) and isinstance(e.func, ast.Name) and e.func.id in _WRAPPERS and len(e.args) == 1:
            e = e.args[0]
        else:
            return e


def or_empty_source(e):
    """Name X when e is f(.. (X or <empty display>) ..) with emptiness-preserving wrappers."""
    e = _unwrap_iter(e)
    if isinstance(e, ast.Call) and isinstance(e.func, ast.Attribute) and e.func.attr in ("keys", "values", "items") and not e.args:
        e = e.func.value
    e = _unwrap_iter(e)
    if isinstance(e, ast.BoolOp) and isinstance(e.op, ast.Or) and len(e.values) == 2 and isinstance(e.values[0], ast.Name):
        alt = e.values[1]
        if isinstance(alt, (ast.Dict, ast.List, ast.Tuple, ast.Set)) and not (getattr(alt, "elts", None) or getattr(alt, "keys", None)):
            return e.values[0].id
    return None


def enum_source(e):
    """Text of E when e is enumerate(E): the index is a valid index of E."""
    if isinstance(e, ast.Call) and isinstance(e.func, ast.Name) and e.func.id == "enumerate" and len(e.args) == 1 and not e.keywords:
        return norm(e.args[0])
    return None


def key_source(e, it=None):
    """Name X when iterating e yields keys of the mapping bound to X."""
    e = _unwrap_iter(e)
    explicit = False
    if isinstance(e, ast.Call) and isinstance(e.func, ast.Attribute) and e.func.attr == "keys" and not e.args:
        e = e.func.value
        e = _unwrap_iter(e)
        explicit = True
    if isinstance(e, ast.BoolOp) and isinstance(e.op, ast.Or) and isinstance(e.values[0], ast.Name):
        e = e.values[0]
    if isinstance(e, ast.Name):
        if explicit or it is None or it.types & {"dict", "json"}:
            return e.id
    return None


def _as_load(t):
    import copy as _c
    n = _c.copy(t)
    n.ctx = ast.Load()
    return n


def _exc_name(e):
    if isinstance(e, ast.Name):
        return e.id
    if isinstance(e, ast.Attribute):
        return e.attr
    return "Exception"


def _env_eq(a, b):
    if a is None or b is None:
        return a is b
    return a == b
