"""E6 - finite evaluation of closed constant expressions and small pure expressions.

`ConstEval` is the analyser's own interpreter over the AST for *closed constant*
expressions found in the source: dict / set / list displays and comprehensions over
names, strings, builtin types, repository classes (`vars(C)`, enum iteration) and
string methods.  It is constant folding over the program model - nothing from the
repository is imported or executed.
"""

from __future__ import annotations

import ast
from dataclasses import dataclass
from typing import Optional

from .program import ClassInfo, External, FuncInfo, Module, Program


class Undecidable(Exception):
    pass


@dataclass(frozen=True)
class ClassRef:
    qualname: str

    def __repr__(self):
        return f"<class {self.qualname}>"


@dataclass(frozen=True)
class TypeRef:
    name: str

    def __repr__(self):
        return f"<type {self.name}>"


@dataclass(frozen=True)
class FuncRef:
    qualname: str


@dataclass(frozen=True)
class MemberObj:
    """An entry of a class namespace (vars(C))."""
    owner: str
    name: str
    kind: str   # classmethod | staticmethod | method | property | classproperty | attr


class AttrObj(dict):
    """An object whose attributes are the dict's items (used to model `self` in finite evaluation)."""


@dataclass(frozen=True)
class EnumMember:
    cls: str
    name: str
    value: object


BUILTIN_TYPE_NAMES = {"int", "float", "str", "list", "dict", "bool", "tuple", "set", "classmethod", "staticmethod", "property", "type"}


class ConstEval:
    def __init__(self, prog: Program, module: Module, env=None):
        self.prog = prog
        self.module = module
        self.env = dict(env or {})

    def ev(self, n):
        m = getattr(self, "c_" + type(n).__name__, None)
        if m is None:
            raise Undecidable(type(n).__name__)
        return m(n)

    def c_Constant(self, n):
        return n.value

    def c_Name(self, n):
        if n.id in self.env:
            return self.env[n.id]
        ent = self.prog.resolve_name(self.module, n.id)
        return self._entity(ent, n.id)

    def _entity(self, ent, name=""):
        if isinstance(ent, ClassInfo):
            return ClassRef(ent.qualname)
        if isinstance(ent, FuncInfo):
            return FuncRef(ent.qualname)
        if isinstance(ent, Module):
            return ent
        if isinstance(ent, External):
            if ent.name in BUILTIN_TYPE_NAMES:
                return TypeRef(ent.name)
            if ent.name == "pathlib.Path":
                return TypeRef("path")
            return ent
        if isinstance(ent, tuple) and ent and ent[0] == "const":
            return ConstEval(self.prog, ent[1]).ev(ent[1].constants[ent[2]])
        raise Undecidable(f"name {name}")

    def c_Attribute(self, n):
        base = self.ev(n.value)
        if isinstance(base, Module):
            return self._entity(self.prog.resolve_name(base, n.attr), n.attr)
        if isinstance(base, External):
            return self._entity(External(base.name + "." + n.attr), n.attr)
        if isinstance(base, AttrObj):
            if n.attr in base:
                return base[n.attr]
            raise Undecidable(f"attribute {n.attr}")
        if isinstance(base, EnumMember):
            if n.attr == "name":
                return base.name
            if n.attr == "value":
                return base.value
        if isinstance(base, ClassRef):
            c = self.prog.classes[base.qualname]
            if n.attr == "__name__":
                return c.name
            owner, v = c.lookup(n.attr)
            if v is None:
                raise Undecidable(f"{base}.{n.attr}")
            if isinstance(v, FuncInfo):
                return MemberObj(owner.qualname, n.attr, v.kind)
            if owner.is_enum():
                return EnumMember(owner.qualname, n.attr, ConstEval(self.prog, owner.module).ev(v))
            return ConstEval(self.prog, owner.module).ev(v)
        if isinstance(base, MemberObj) and n.attr == "__name__":
            return base.name
        if isinstance(base, FuncRef) and n.attr == "__name__":
            return base.qualname.split(".")[-1]
        raise Undecidable(f"attribute {n.attr}")

    def c_Dict(self, n):
        out = {}
        for k, v in zip(n.keys, n.values):
            if k is None:
                out.update(self.ev(v))
            else:
                out[self.ev(k)] = self.ev(v)
        return out

    def c_List(self, n):
        return [self.ev(e) for e in n.elts]

    def c_Tuple(self, n):
        return tuple(self.ev(e) for e in n.elts)

    def c_Set(self, n):
        return {self.ev(e) for e in n.elts}

    def c_JoinedStr(self, n):
        out = ""
        for v in n.values:
            if isinstance(v, ast.Constant):
                out += str(v.value)
            else:
                out += str(self.ev(v.value))
        return out

    def _iterate(self, v):
        if isinstance(v, ClassRef):
            c = self.prog.classes[v.qualname]
            if not c.is_enum():
                raise Undecidable("iterating a non-enum class")
            return [EnumMember(c.qualname, k, ConstEval(self.prog, c.module).ev(e)) for k, e in c.attrs.items() if not k.startswith("_")]
        if isinstance(v, dict):
            return list(v.keys())
        if isinstance(v, (list, tuple, set, frozenset, str)):
            return list(v)
        raise Undecidable("iteration")

    def _comp(self, generators, emit):
        def rec(i):
            if i == len(generators):
                emit()
                return
            g = generators[i]
            for item in self._iterate(self.ev(g.iter)):
                saved = dict(self.env)
                self._bind(g.target, item)
                if all(self.ev(c) for c in g.ifs):
                    rec(i + 1)
                self.env = saved
        rec(0)

    def _bind(self, target, val):
        if isinstance(target, ast.Name):
            self.env[target.id] = val
        elif isinstance(target, (ast.Tuple, ast.List)):
            vals = list(val)
            if len(vals) != len(target.elts):
                raise Undecidable("unpack")
            for t, v in zip(target.elts, vals):
                self._bind(t, v)
        else:
            raise Undecidable("bind")

    def c_ListComp(self, n):
        out = []
        self._comp(n.generators, lambda: out.append(self.ev(n.elt)))
        return out

    c_GeneratorExp = c_ListComp

    def c_SetComp(self, n):
        out = set()
        self._comp(n.generators, lambda: out.add(self.ev(n.elt)))
        return out

    def c_DictComp(self, n):
        out = {}

        def emit():
            out[self.ev(n.key)] = self.ev(n.value)
        self._comp(n.generators, emit)
        return out

    def c_Compare(self, n):
        left = self.ev(n.left)
        for op, r in zip(n.ops, n.comparators):
            right = self.ev(r)
            if isinstance(op, ast.Eq):
                ok = left == right
            elif isinstance(op, ast.NotEq):
                ok = left != right
            elif isinstance(op, ast.In):
                ok = left in right
            elif isinstance(op, ast.NotIn):
                ok = left not in right
            elif isinstance(op, ast.Is):
                ok = left is right or (left == right and isinstance(left, (TypeRef, ClassRef, type(None), bool)))
            elif isinstance(op, ast.IsNot):
                ok = not (left is right or (left == right and isinstance(left, (TypeRef, ClassRef, type(None), bool))))
            elif isinstance(op, (ast.Lt, ast.LtE, ast.Gt, ast.GtE)) and isinstance(left, (int, float)) and isinstance(right, (int, float)):
                ok = {ast.Lt: left < right, ast.LtE: left <= right, ast.Gt: left > right, ast.GtE: left >= right}[type(op)]
            else:
                raise Undecidable("compare")
            if not ok:
                return False
            left = right
        return True

    def c_BoolOp(self, n):
        if isinstance(n.op, ast.And):
            v = True
            for s in n.values:
                v = self.ev(s)
                if not v:
                    return v
            return v
        v = False
        for s in n.values:
            v = self.ev(s)
            if v:
                return v
        return v

    def c_UnaryOp(self, n):
        if isinstance(n.op, ast.Not):
            return not self.ev(n.operand)
        if isinstance(n.op, ast.USub):
            return -self.ev(n.operand)
        raise Undecidable("unary")

    def c_IfExp(self, n):
        return self.ev(n.body) if self.ev(n.test) else self.ev(n.orelse)

    def c_Subscript(self, n):
        base = self.ev(n.value)
        k = self.ev(n.slice)
        try:
            return base[k]
        except Exception:
            raise Undecidable("subscript")

    def c_BinOp(self, n):
        a, b = self.ev(n.left), self.ev(n.right)
        try:
            if isinstance(n.op, ast.Add):
                return a + b
            if isinstance(n.op, ast.BitOr):
                return a | b
            if isinstance(n.op, ast.BitAnd):
                return a & b
            if isinstance(n.op, ast.Sub):
                return a - b
        except Exception:
            pass
        raise Undecidable("binop")

    def c_Call(self, n):
        f = n.func
        args = [self.ev(a) for a in n.args]
        if isinstance(f, ast.Name) and f.id not in self.env:
            if f.id == "vars" and len(args) == 1 and isinstance(args[0], ClassRef):
                c = self.prog.classes[args[0].qualname]
                out = {}
                for st in c.node.body:
                    if isinstance(st, (ast.FunctionDef, ast.AsyncFunctionDef)):
                        fi = c.methods.get(st.name) or c.setters.get(st.name)
                        out[st.name] = MemberObj(c.qualname, st.name, fi.kind if fi else "method")
                    elif isinstance(st, ast.Assign):
                        for t in st.targets:
                            if isinstance(t, ast.Name):
                                v = st.value
                                if isinstance(v, ast.Name) and v.id in c.methods:
                                    out[t.id] = MemberObj(c.qualname, v.id, c.methods[v.id].kind)
                                else:
                                    out[t.id] = MemberObj(c.qualname, t.id, "attr")
                    elif isinstance(st, ast.AnnAssign) and isinstance(st.target, ast.Name) and st.value is not None:
                        out[st.target.id] = MemberObj(c.qualname, st.target.id, "attr")
                return out
            if f.id == "dir" and len(args) == 1 and isinstance(args[0], ClassRef):
                c = self.prog.classes[args[0].qualname]
                names = []
                for k in c.mro:
                    names += list(k.methods) + list(k.attrs)
                return sorted(set(names))
            if f.id == "isinstance" and len(args) == 2:
                obj, t = args
                ts = t if isinstance(t, tuple) else (t,)
                for tt in ts:
                    if isinstance(tt, TypeRef):
                        if isinstance(obj, MemberObj) and tt.name in ("classmethod", "staticmethod", "property"):
                            if obj.kind == tt.name:
                                return True
                        elif tt.name == "str" and isinstance(obj, str):
                            return True
                        elif tt.name == "int" and isinstance(obj, int):
                            return True
                return False
            if f.id == "callable" and len(args) == 1:
                return isinstance(args[0], (MemberObj, FuncRef, ClassRef)) and getattr(args[0], "kind", "") != "attr"
            if f.id in ("list", "tuple", "set", "sorted", "frozenset") and len(args) <= 1:
                items = self._iterate(args[0]) if args else []
                return {"list": list, "tuple": tuple, "set": set, "sorted": sorted, "frozenset": frozenset}[f.id](items)
            if f.id == "dict" and not args:
                return {}
            if f.id == "len" and len(args) == 1:
                return len(args[0])
            if f.id in ("any", "all") and len(args) == 1:
                return (any if f.id == "any" else all)(bool(x) for x in self._iterate(args[0]))
            if f.id == "next" and len(args) == 1:
                try:
                    return next(iter(args[0]))
                except StopIteration:
                    raise Undecidable("StopIteration")
            if f.id == "iter" and len(args) == 1:
                return list(self._iterate(args[0]))
            if f.id == "bool" and len(args) == 1:
                return bool(args[0])
            if f.id == "str" and len(args) == 1 and isinstance(args[0], (str, int)):
                return str(args[0])
            if f.id == "getattr" and len(args) >= 2 and isinstance(args[0], ClassRef) and isinstance(args[1], str):
                return self.c_Attribute(ast.Attribute(value=n.args[0], attr=args[1], ctx=ast.Load()))
        if isinstance(f, ast.Attribute):
            recv = self.ev(f.value)
            if isinstance(recv, dict):
                if f.attr == "keys":
                    return list(recv.keys())
                if f.attr == "values":
                    return list(recv.values())
                if f.attr == "items":
                    return list(recv.items())
                if f.attr == "get" and args:
                    return recv.get(args[0], args[1] if len(args) > 1 else None)
            if isinstance(recv, str) and f.attr in ("lower", "upper", "strip", "replace", "startswith", "endswith", "split"):
                return getattr(recv, f.attr)(*args)
        raise Undecidable("call")


def run_block(ev: ConstEval, stmts):
    """Execute simple statements (Name = expr; if/else with decidable tests) in ev.env."""
    for st in stmts:
        if isinstance(st, ast.Assign) and len(st.targets) == 1 and isinstance(st.targets[0], ast.Name):
            ev.env[st.targets[0].id] = ev.ev(st.value)
        elif isinstance(st, ast.If):
            run_block(ev, st.body if ev.ev(st.test) else st.orelse)
        elif isinstance(st, ast.Expr) and isinstance(st.value, ast.Constant):
            continue
        else:
            raise Undecidable(type(st).__name__)


class _Return(Exception):
    def __init__(self, value):
        self.value = value


def run_function(prog: Program, func: FuncInfo, env):
    """Evaluate a small pure function (assignments, if/else, return) on constant arguments."""
    ev = ConstEval(prog, func.module, env)

    def block(stmts):
        for st in stmts:
            if isinstance(st, ast.Expr) and isinstance(st.value, ast.Constant):
                continue
            if isinstance(st, ast.Return):
                raise _Return(ev.ev(st.value) if st.value is not None else None)
            if isinstance(st, ast.Assign) and len(st.targets) == 1 and isinstance(st.targets[0], ast.Name):
                ev.env[st.targets[0].id] = ev.ev(st.value)
            elif isinstance(st, ast.If):
                block(st.body if ev.ev(st.test) else st.orelse)
            else:
                raise Undecidable(type(st).__name__)
    try:
        block(func.node.body)
    except _Return as r:
        return r.value
    return None


def local_tables(prog: Program, func: FuncInfo):
    """Evaluate, in order, the simple `NAME = <closed constant expr>` statements at the top
    level of a function body.  Returns {name: value}."""
    env = {}
    for st in func.node.body:
        if isinstance(st, ast.Assign) and len(st.targets) == 1 and isinstance(st.targets[0], ast.Name):
            try:
                env[st.targets[0].id] = ConstEval(prog, func.module, env).ev(st.value)
            except Undecidable:
                env.pop(st.targets[0].id, None)
            except Exception:
                env.pop(st.targets[0].id, None)
    return env


def module_table(prog: Program, module: Module, name: str):
    return ConstEval(prog, module).ev(prog.const_table(module, name))


# ------------------------------------------------------------------------------------------
# allowed-set dataflow for string variables (R-REFLECT)
# ------------------------------------------------------------------------------------------
def allowed_sets(prog: Program, func: FuncInfo, tables=None):
    """For every getattr(obj, <non-constant name>) call in `func`: the finite set of strings
    the name can be at that site (None = not bounded by any table).  A tiny forward
    dataflow over the statements of the function with the domain {finite set, unknown}:
      x = T[y]            -> values(T)                    (T a constant table)
      x = T.get(y, y)     -> values(T) | allowed(y)
      if x not in T: raise/return ...   -> afterwards allowed(x) &= keys(T)
      if x in T: <body>   -> inside body allowed(x) &= keys(T)
    Returns {call node: (name expr text, set | None)}."""
    tables = tables if tables is not None else local_tables(prog, func)
    for k, v in ((n, c) for n, c in func.module.constants.items()):
        if k not in tables:
            try:
                tables[k] = ConstEval(prog, func.module).ev(v)
            except Exception:
                pass
    out = {}

    def keys_of(t):
        if isinstance(t, dict):
            return set(t.keys())
        if isinstance(t, (set, frozenset, list, tuple)):
            return set(t)
        return None

    def strs(s):
        return {x for x in s if isinstance(x, str)} if s is not None else None

    def table_of(node):
        if isinstance(node, ast.Name) and node.id in tables:
            return tables[node.id]
        if isinstance(node, (ast.List, ast.Tuple, ast.Set)):
            try:
                return ConstEval(prog, func.module, tables).ev(node)
            except Exception:
                return None
        return None

    def expr_allowed(e, state):
        if isinstance(e, ast.Name):
            return state.get(e.id)
        if isinstance(e, ast.Constant) and isinstance(e.value, str):
            return {e.value}
        if isinstance(e, ast.Subscript):
            t = table_of(e.value)
            if isinstance(t, dict):
                if isinstance(e.slice, ast.Name) and state.get(e.slice.id) is not None:
                    # the index is itself bounded: only the entries it can select
                    return {t[k] for k in state[e.slice.id] if k in t}
                return set(t.values())
        if isinstance(e, ast.Call) and isinstance(e.func, ast.Attribute) and e.func.attr == "get" and e.args:
            t = table_of(e.func.value)
            if isinstance(t, dict):
                vals = set(t.values())
                if len(e.args) == 1:
                    return vals | {None}
                d = expr_allowed(e.args[1], state)
                return None if d is None else vals | d
        return None

    def visit_expr(e, state):
        for n in ast.walk(e):
            if isinstance(n, ast.Call) and isinstance(n.func, ast.Name) and n.func.id == "getattr" and len(n.args) >= 2 and not isinstance(n.args[1], ast.Constant):
                a = expr_allowed(n.args[1], state)
                prev = out.get(n)
                out[n] = (ast.unparse(n.args[1]), a if prev is None else (None if (prev[1] is None or a is None) else prev[1] | a))

    def exits(body):
        return bool(body) and isinstance(body[-1], (ast.Raise, ast.Return, ast.Continue, ast.Break))

    # variables that only ever hold lower-cased text (greatest fixpoint over the plain assignments): a
    # membership test of such a variable in a table can only succeed for the table's lower-case keys, so a
    # mixed-case key (`keys_contain_N_of`) is unreachable once the table stops lower-casing its keys (seed C11-m10)
    assigns = {}
    other_bound = set(p.name for p in func.params)
    for n in ast.walk(func.node):
        if isinstance(n, ast.Assign):
            for t in n.targets:
                if isinstance(t, ast.Name):
                    assigns.setdefault(t.id, []).append(n.value)
                else:
                    other_bound |= {x.id for x in ast.walk(t) if isinstance(x, ast.Name)}
        elif isinstance(n, (ast.For, ast.comprehension)):
            other_bound |= {x.id for x in ast.walk(n.target) if isinstance(x, ast.Name)}
        elif isinstance(n, (ast.AugAssign, ast.AnnAssign, ast.NamedExpr)):
            other_bound |= {x.id for x in ast.walk(n.target) if isinstance(x, ast.Name)}
        elif isinstance(n, ast.ExceptHandler) and n.name:
            other_bound.add(n.name)
        elif isinstance(n, ast.withitem) and n.optional_vars is not None:
            other_bound |= {x.id for x in ast.walk(n.optional_vars) if isinstance(x, ast.Name)}
    lowered = set(assigns) - other_bound

    def is_lowered(e):
        if isinstance(e, ast.Call) and isinstance(e.func, ast.Attribute) and e.func.attr == "lower" and not e.args:
            return True
        if isinstance(e, ast.Name):
            return e.id in lowered
        if isinstance(e, ast.Subscript):
            return isinstance(e.value, ast.Name) and e.value.id in lowered
        if isinstance(e, (ast.ListComp, ast.GeneratorExp)):
            return is_lowered(e.elt)
        if isinstance(e, ast.Call) and isinstance(e.func, ast.Attribute) and e.func.attr == "get" and len(e.args) == 2:
            t = table_of(e.func.value)
            return isinstance(t, dict) and all(isinstance(v, str) and v == v.lower() for v in t.values()) and is_lowered(e.args[1])
        return False
    changed = True
    while changed:
        changed = False
        for v in sorted(lowered):
            if not all(is_lowered(e) for e in assigns[v]):
                lowered.discard(v)
                changed = True

    def refine(test, state, branch):
        st = dict(state)
        if isinstance(test, ast.UnaryOp) and isinstance(test.op, ast.Not):
            return refine(test.operand, state, not branch)
        if isinstance(test, ast.Compare) and len(test.ops) == 1 and isinstance(test.left, ast.Name):
            t = table_of(test.comparators[0])
            ks = keys_of(t) if t is not None else None
            if ks is not None and test.left.id in lowered:
                ks = {k for k in ks if not isinstance(k, str) or k == k.lower()}
            pos = isinstance(test.ops[0], ast.In) == branch if isinstance(test.ops[0], (ast.In, ast.NotIn)) else None
            if ks is not None and pos:
                cur = st.get(test.left.id)
                st[test.left.id] = set(ks) if cur is None else cur & ks
        if isinstance(test, ast.BoolOp):
            if isinstance(test.op, ast.And) == branch:
                for v in test.values:
                    st = refine(v, st, branch)
        return st

    def join(a, b):
        if a is None:
            return b
        if b is None:
            return a
        res = {}
        for k in set(a) | set(b):
            x, y = a.get(k), b.get(k)
            res[k] = None if (x is None or y is None) else x | y
        return res

    def block(stmts, state):
        for s in stmts:
            if state is None:
                return None
            state = stmt(s, state)
        return state

    def stmt(s, state):
        if isinstance(s, ast.Assign):
            visit_expr(s.value, state)
            a = expr_allowed(s.value, state)
            st = dict(state)
            for t in s.targets:
                for n in ast.walk(t):
                    if isinstance(n, ast.Name):
                        st[n.id] = a if (isinstance(t, ast.Name)) else None
            return st
        if isinstance(s, ast.If):
            visit_expr(s.test, state)
            a = block(s.body, refine(s.test, state, True))
            b = block(s.orelse, refine(s.test, state, False))
            return join(a, b)
        if isinstance(s, (ast.For, ast.While)):
            if isinstance(s, ast.For):
                visit_expr(s.iter, state)
                st = dict(state)
                for n in ast.walk(s.target):
                    if isinstance(n, ast.Name):
                        st[n.id] = None
            else:
                st = dict(state)
            for _ in range(2):
                after = block(s.body, st)
                st = join(st, after) if after is not None else st
            return st
        if isinstance(s, ast.Try):
            a = block(s.body, state)
            res = a
            for h in s.handlers:
                res = join(res, block(h.body, dict(state)))
            if s.orelse and a is not None:
                res = join(block(s.orelse, a), res)
            return res
        if isinstance(s, ast.With):
            return block(s.body, state)
        if isinstance(s, (ast.Return, ast.Raise)):
            for n in ast.iter_child_nodes(s):
                if isinstance(n, ast.expr):
                    visit_expr(n, state)
            return None
        if isinstance(s, (ast.Continue, ast.Break)):
            return None
        for n in ast.iter_child_nodes(s):
            if isinstance(n, ast.expr):
                visit_expr(n, state)
        return state

    block(func.node.body, {p.name: None for p in func.params})
    return {n: (txt, strs(a) if a is not None else None) for n, (txt, a) in out.items()}
