"""Trusted model of Python on JSON-like operands: exception hierarchy, operator ->
may-raise table, builtin method tables.  Printed in the evidence of every check that
uses the abstract interpreter (DESIGN 3/E3, 8)."""

import ast

EXC_PARENT = {
    "Exception": "BaseException",
    "ArithmeticError": "Exception",
    "ZeroDivisionError": "ArithmeticError",
    "OverflowError": "ArithmeticError",
    "LookupError": "Exception",
    "KeyError": "LookupError",
    "IndexError": "LookupError",
    "TypeError": "Exception",
    "ValueError": "Exception",
    "AttributeError": "Exception",
    "RuntimeError": "Exception",
    "NotImplementedError": "RuntimeError",
    "RecursionError": "RuntimeError",
    "StopIteration": "Exception",
    "NameError": "Exception",
    "UnboundLocalError": "NameError",
    "AssertionError": "Exception",
    "OSError": "Exception",
    "Warning": "Exception",
    "UserWarning": "Warning",
}


def exc_is_subclass(exc, parent, repo_exc_parents=None):
    seen = set()
    cur = exc
    while cur is not None and cur not in seen:
        if cur == parent:
            return True
        seen.add(cur)
        nxt = EXC_PARENT.get(cur)
        if nxt is None and repo_exc_parents:
            nxt = repo_exc_parents.get(cur)
        if nxt is None and cur != "BaseException":
            nxt = "Exception" if cur not in ("BaseException",) else None
        cur = nxt
    return False


# operator -> exceptions when (at least) one operand is an input node of unknown JSON type
TE = ("TypeError",)
BINOP_RAISES = {
    ast.Add: TE, ast.Sub: TE, ast.Mult: TE, ast.MatMult: TE,
    ast.Div: ("TypeError", "ZeroDivisionError"),
    ast.FloorDiv: ("TypeError", "ZeroDivisionError"),
    ast.Mod: ("TypeError", "ZeroDivisionError", "ValueError", "OverflowError", "KeyError", "MemoryError"),   # str % x is printf formatting
    ast.Pow: ("TypeError", "ZeroDivisionError"),
    ast.LShift: ("TypeError", "ValueError"), ast.RShift: ("TypeError", "ValueError"),
    ast.BitOr: TE, ast.BitAnd: TE, ast.BitXor: TE,
}
# numeric-typed but tainted operands (narrowed to int/float): only the zero-division part stays
BINOP_RAISES_NUMERIC = {
    ast.Div: ("ZeroDivisionError",), ast.FloorDiv: ("ZeroDivisionError",),
    ast.Mod: ("ZeroDivisionError",), ast.Pow: ("ZeroDivisionError",),
}
CMP_RAISES = {
    ast.Eq: (), ast.NotEq: (), ast.Is: (), ast.IsNot: (),
    ast.Lt: TE, ast.LtE: TE, ast.Gt: TE, ast.GtE: TE,
}
UNARY_RAISES = {ast.Not: (), ast.USub: TE, ast.UAdd: TE, ast.Invert: TE}

OP_TABLE_DOC = [
    ("==, !=, is, is not, not, truth test, isinstance(T, .), type(T), str/repr/format(T), copy/deepcopy(T)", []),
    ("T in <list/tuple of clean values>, passing T unchanged", []),
    ("<, >, <=, >=, unary -/+/~, +, -, *, abs, len, range, sum, set/list/tuple/sorted/iter/zip/enumerate(T), for .. in T, x in T, T in <dict/set/str>, T(...), isinstance(x, T), hashing T", ["TypeError"]),
    ("/, //, **", ["TypeError", "ZeroDivisionError"]),
    ("T % x, x % T with T not known not to be a str (`str % x` is printf-style formatting: bad format, '%c' out of range, '%(k)s' with a mapping, '%9999999999d')", ["TypeError", "ZeroDivisionError", "ValueError", "OverflowError", "KeyError", "MemoryError"]),
    ("T % x with T known not to be a str (after `isinstance(T, str)` was excluded)", ["TypeError", "ZeroDivisionError"]),
    ("int(T), float(T)", ["TypeError", "ValueError"]),
    ("int(T:str), float(T:str)", ["ValueError"]),
    ("int(x) for a float x derived from the input (float(T:str) may be inf / nan)", ["OverflowError", "ValueError"]),
    ("sorted / min / max over input nodes, or with a key made of input nodes", ["TypeError"]),
    ("a, b = T", ["TypeError", "ValueError"]),
    ("T.attr", ["AttributeError"]),
    ("T.m(...)", ["AttributeError", "TypeError"]),
    ("T[k]", ["TypeError", "KeyError", "IndexError (dropped when k is provably str)"]),
    ("T:dict[k], T:dict.pop(k) without default", ["KeyError"]),
    ("T:list[<const int>], T:tuple[<const int>] without a non-emptiness fact", ["IndexError"]),
    ("x[T] (x a library list/tuple)", ["TypeError", "IndexError"]),
    ("x[T] (x a library dict)", ["TypeError", "KeyError"]),
    ("for .. in <iteration over T>: T[<not a key obtained from T>] = v   (T may be a mapping)", ["RuntimeError"]),
    ("next(T)", ["TypeError", "StopIteration"]),
    ("next(iter(T:container)) without default and without a non-emptiness fact", ["StopIteration"]),
]

MUTATOR_METHODS = {
    "pop", "append", "extend", "insert", "remove", "update", "clear", "sort", "reverse",
    "setdefault", "popitem", "add", "discard", "__setitem__", "__delitem__",
}

STR_METHODS = {
    "lower", "upper", "strip", "lstrip", "rstrip", "replace", "format", "join", "split", "rsplit",
    "startswith", "endswith", "capitalize", "title", "isdigit", "isnumeric", "find", "index",
    "count", "encode", "splitlines", "partition", "zfill", "center", "ljust", "rjust", "casefold",
    "removeprefix", "removesuffix", "isalpha", "isalnum", "isspace", "format_map", "swapcase",
}
LIST_METHODS = {"append", "extend", "insert", "pop", "remove", "sort", "reverse", "clear", "index", "count", "copy"}
DICT_METHODS = {"get", "pop", "items", "keys", "values", "update", "copy", "setdefault", "popitem", "clear", "fromkeys"}
TUPLE_METHODS = {"index", "count"}
SET_METHODS = {"add", "discard", "remove", "pop", "update", "clear", "copy", "union", "intersection", "difference", "issubset", "issuperset"}

METHODS_BY_TAG = {
    "str": STR_METHODS, "list": LIST_METHODS, "dict": DICT_METHODS, "tuple": TUPLE_METHODS,
    "set": SET_METHODS, "none": set(), "bool": {"bit_length"}, "int": {"bit_length"},
    "float": {"is_integer"}, "range": {"index", "count"}, "iter": set(),
}

# attributes every object has (never AttributeError)
UNIVERSAL_ATTRS = {"__class__", "__doc__", "__eq__", "__ne__", "__repr__", "__str__", "__hash__", "__init__", "__dir__", "__sizeof__", "__reduce__", "__format__", "__getattribute__", "__setattr__", "__delattr__", "__new__", "__init_subclass__", "__subclasshook__", "__reduce_ex__", "__lt__", "__le__", "__gt__", "__ge__"}
