"""Property -> rules, explanation, assumptions (DESIGN.md section 5)."""

from __future__ import annotations

from .rules import raises as R
from .rules import purity as P

COMMON_ASSUMPTIONS = [
    "Python semantics on JSON-like operands as tabulated in vstatic/pymodel.py (NaN and >64-bit numbers excluded, as in the properties)",
    "closed world: only code under /repo/valida mutates or subclasses valida objects; no monkey-patching",
    "field-type hints of vstatic/hints.py (each verified to name an existing class field on every run)",
    "abstract interpretation is path-insensitive except for isinstance / None / emptiness / constant-flag narrowing and the is_concrete case split",
]


def c07_rules():
    def r_validate(ctx):
        return R.raise_rule("R-RAISE/C07:Schema.validate", R.validate_merged(ctx), R.EXEMPT, floor=20,
                            what="Schema.validate")

    def r_rule_test(ctx):
        return R.raise_rule("R-RAISE/C07:Rule.test", R.rule_test_merged(ctx), R.EXEMPT, floor=20,
                            what="Rule.test")
    return [r_validate, r_rule_test]


ALL_ROOTS = {"schema", "data", "rule", "cond", "source", "path", "part", "result"}


def c08_rules():
    def r_pure(ctx):
        merged, labels = P.pure_jobs(ctx)
        return P.mutation_rule("R-PURE/C08", [(l, merged[l]) for l in labels], ALL_ROOTS,
                               "the read entry point was called (an argument, self, or an object reachable from them)", floor=30)

    def r_escape(ctx):
        merged, labels = P.pure_jobs(ctx)
        return P.escape_rule("R-ESCAPE/C08", [(l, merged[l]) for l in labels], "PRIV", ALL_ROOTS, "used for casts", floor=1)
    return [P.rule_newinit, r_pure, r_escape]


def c16_rules():
    def r_pure(ctx):
        merged, labels = P.parse_jobs(ctx)
        return P.mutation_rule("R-PURE/C16", [(l, merged[l]) for l in labels], {"spec"},
                               "the parser was called (its spec argument or anything reachable from it)", floor=10)
    return [r_pure]


PROPERTIES = {
    "C16": dict(
        rules=c16_rules(),
        explanation=(
            "Ownership / mutation analysis of the ten parse entry points (ConditionLike/DataPath/ContainerValue/Rule/Schema from_spec, "
            "from_json_like, from_part_specs, init_rules) with the spec argument as protected origin: every store / mutating call reachable "
            "from them must target a fresh object (a copy), never the caller's spec structure or anything reachable from it. "
            "Decides 'parsing does not change the spec' for all specs; equality of two parses then rests on C14 and on the absence of "
            "module-level mutable state (none is written: listed in the evidence)."
        ),
        assumptions=COMMON_ASSUMPTIONS,
    ),
    "C08": dict(
        rules=c08_rules(),
        explanation=(
            "Ownership / mutation analysis (abstract interpretation over origins) of every function reachable from the read entry points "
            "(filter / test / test_all / Data.filter / Data.get / DataPath.get_data / part filters / Rule.test / Schema.validate and every "
            "property and report method of the result classes): every attribute store, subscript store, augmented assignment and mutating "
            "call is an obligation whose abstract target must be fresh or the private cast copy, never an argument, self or anything "
            "reachable from them; nothing of the caller's may be stored into the private copy; __init__ never runs on an object that "
            "__new__ short-circuited to.  For this property the structural statement is the property (closed world)."
        ),
        assumptions=COMMON_ASSUMPTIONS + ["callees unknown to the analyser are assumed not to mutate their arguments (counted as 'unmodelled' events in the evidence)"],
    ),
    "C07": dict(
        rules=c07_rules(),
        explanation=(
            "Static exception-effect analysis (abstract interpretation over types x origins x taint) of every function reachable "
            "from Schema.validate and Rule.test with the document as tainted input of unknown JSON type: every operation applied to a "
            "document-derived value and every explicit raise control-dependent on one is an obligation; it must be covered by a handler "
            "on every analysed call path.  Decides error containment structurally for all documents; it does not decide verdict values."
        ),
        assumptions=COMMON_ASSUMPTIONS,
    ),
}


NOT_APPLICABLE = {
    "C10": "equality and identical behaviour of two construction routes over an unbounded spec-term space x YAML text x documents: "
           "quantifies over run-time values; only exact-shape matches on ~130 lines of pop-driven branching could be written, which would "
           "fire on behaviour-preserving rewrites (DESIGN.md section 7). Its structural by-products are decided under C16/C19/C13/C09/C17.",
}

MANIFEST_TEXT = {
    "C16": dict(
        level="Effect analysis: no store or mutating call reachable from any parse entry point targets the caller's spec or anything reachable from it - for every spec and every number of repeated parses. "
              "Decides the non-mutation clause completely; 're-parsing gives an equal object' follows from it plus determinism (no global state) and C14.",
        note="trusts the builtin effect table (pop/update/append/... mutate; dict()/list()/deepcopy copy) and the closed-world assumption",
        technique="static ownership / mutation (effect) analysis by abstract interpretation over origin labels",
    ),
    "C08": dict(
        level="Effect analysis over all read entry points: no store or mutating call reachable from them targets a pre-existing object, for every input and every call history "
              "(absence of writes to shared objects makes results independent of history and interleaving). This is the property itself under the closed-world assumption.",
        note="trusts the builtin effect table (which builtin methods mutate / copy), the field-type hints and the closed-world assumption; Data.extract_paths is analysed only under the internal flag values the package itself passes",
        technique="static ownership / mutation (effect) analysis by abstract interpretation over origin labels, plus a syntactic __new__/__init__ guard rule",
    ),
    "C07": dict(
        level="Sound-by-construction over-approximation, for all documents at once, of the exceptions that can escape Schema.validate / Rule.test "
              "because of document content: every operation on a document-derived value and every raise control-dependent on one must be under a covering handler. "
              "Decides error containment (the property itself, under the stated Python model); says nothing about verdict values.",
        note="trusts the operator->exception table for JSON-like operands, the closed-world assumption and 6 named exemptions each tied to a quantifier clause or to another rule",
        technique="static exception-effect analysis by abstract interpretation (types x taint) over the resolved call graph",
    ),
}
