"""Property -> rules, explanation, assumptions (DESIGN.md section 5)."""

from __future__ import annotations

from .rules import raises as R

COMMON_ASSUMPTIONS = [
    "Python semantics on JSON-like operands as tabulated in vstatic/pymodel.py (NaN and >64-bit numbers excluded, as in the properties)",
    "closed world: only code under /repo/valida mutates or subclasses valida objects; no monkey-patching",
    "field-type hints of vstatic/hints.py (each verified to name an existing class field on every run)",
    "abstract interpretation is path-insensitive except for isinstance / None / emptiness / constant-flag narrowing and the is_concrete case split",
]


def c07_rules():
    def r_validate(ctx):
        return R.raise_rule("R-RAISE/C07:Schema.validate", R.validate_merged(ctx), R.EXEMPT, floor=20,
                            what="Schema.validate")

    def r_rule_test(ctx):
        return R.raise_rule("R-RAISE/C07:Rule.test", R.rule_test_merged(ctx), R.EXEMPT, floor=20,
                            what="Rule.test")
    return [r_validate, r_rule_test]


PROPERTIES = {
    "C07": dict(
        rules=c07_rules(),
        explanation=(
            "Static exception-effect analysis (abstract interpretation over types x origins x taint) of every function reachable "
            "from Schema.validate and Rule.test with the document as tainted input of unknown JSON type: every operation applied to a "
            "document-derived value and every explicit raise control-dependent on one is an obligation; it must be covered by a handler "
            "on every analysed call path.  Decides error containment structurally for all documents; it does not decide verdict values."
        ),
        assumptions=COMMON_ASSUMPTIONS,
    ),
}


NOT_APPLICABLE = {
    "C10": "equality and identical behaviour of two construction routes over an unbounded spec-term space x YAML text x documents: "
           "quantifies over run-time values; only exact-shape matches on ~130 lines of pop-driven branching could be written, which would "
           "fire on behaviour-preserving rewrites (DESIGN.md section 7). Its structural by-products are decided under C16/C19/C13/C09/C17.",
}

MANIFEST_TEXT = {
    "C07": dict(
        level="Sound-by-construction over-approximation, for all documents at once, of the exceptions that can escape Schema.validate / Rule.test "
              "because of document content: every operation on a document-derived value and every raise control-dependent on one must be under a covering handler. "
              "Decides error containment (the property itself, under the stated Python model); says nothing about verdict values.",
        note="trusts the operator->exception table for JSON-like operands, the closed-world assumption and 6 named exemptions each tied to a quantifier clause or to another rule",
        technique="static exception-effect analysis by abstract interpretation (types x taint) over the resolved call graph",
    ),
}
