"""Property -> rules, explanation, assumptions (DESIGN.md section 5)."""

from __future__ import annotations

from .contexts import Merged
from .rules import eq as E
from .rules import purity as P
from .rules import raises as R
from .rules import reflect as RF
from .rules import shape as SH
from .rules import sig as SG
from .rules import shape2 as S2
from .rules import html as H

COMMON_ASSUMPTIONS = [
    "Python semantics on JSON-like operands as tabulated in vstatic/pymodel.py (NaN and >64-bit numbers excluded, as in the properties)",
    "closed world: only code under /repo/valida mutates or subclasses valida objects; no monkey-patching",
    "field-type hints of vstatic/hints.py (each verified to name an existing class field on every run)",
    "abstract interpretation is path-insensitive except for isinstance / None / emptiness / membership / constant-flag narrowing and the is_concrete case split",
    "a flag bound together with a value from one call result (`value, found = f(..)`) is assumed to be that value's found-flag: where the flag is tested true the value / its elements are taken not to be None (only affects the 'unpacking a possibly-None value' row)",
    "a rule's own condition is a value condition or a combination (C05-C07 quantify over value-kind rules); a lone Key / Index condition as a rule's condition is outside these properties",
]
SHAPE_ASSUMPTION = "recognised-form rules decide only expressions inside their vocabulary; anything else is reported as undecided in this file and is not a violation"

ALL_ROOTS = {"schema", "data", "rule", "cond", "source", "path", "part", "result", "global"}


def _merge(jobs, keys):
    m = Merged()
    for k in keys:
        for kk, vv in jobs[k].raises.items():
            if kk not in m.raises or (vv[1] and not m.raises[kk][1]):
                m.raises[kk] = vv
        for ek, ev in jobs[k].events.items():
            m.events.setdefault(ek, ev)
        m.cases += [f"{k}:{c}" for c in jobs[k].cases]
        m.contexts += jobs[k].contexts
        m.functions |= jobs[k].functions
    return m


# -- C01 -----------------------------------------------------------------------------------
def r_raise_c01(ctx):
    return R.raise_rule("R-RAISE/C01", _merge(R._c01_jobs(ctx), ("filter", "test_all", "data_filter")), R.exemptions(ctx), floor=25,
                        what="ConditionLike.filter / test_all / Data.filter")


# -- C02 -----------------------------------------------------------------------------------
def r_pure_c02(ctx):
    merged, labels = P.op_jobs(ctx)
    return P.mutation_rule("R-PURE/C02", [(l, merged[l]) for l in labels], {"a", "b", "global"},
                           "the combination was built / inspected (an operand, or an object reachable from it)", floor=1)


# -- C03 -----------------------------------------------------------------------------------
def r_raise_c03(ctx):
    return R.raise_rule("R-RAISE/C03", _merge(R._c01_jobs(ctx), ("get_data", "data_get")), R.exemptions(ctx), floor=20,
                        what="DataPath.get_data / Data.get")


def r_pure_c03(ctx):
    merged, labels = P.pure_jobs(ctx)
    keep = [l for l in labels if l in ("get_data", "data_get", "part_filter", "map_filter", "list_filter")]
    return P.mutation_rule("R-PURE/C03", [(l, merged[l]) for l in keep], ALL_ROOTS,
                           "the path was resolved (the path, its parts and their conditions must not remember anything from one node or document to the next)", floor=10)


# -- C07 -----------------------------------------------------------------------------------
def r_raise_c07_validate(ctx):
    return R.raise_rule("R-RAISE/C07:Schema.validate", R.validate_merged(ctx), R.exemptions(ctx), floor=12, what="Schema.validate")


def r_raise_c07_rule_test(ctx):
    return R.raise_rule("R-RAISE/C07:Rule.test", R.rule_test_merged(ctx), R.exemptions(ctx), floor=12, what="Rule.test")


# -- C08 -----------------------------------------------------------------------------------
def r_pure_c08(ctx):
    merged, labels = P.pure_jobs(ctx)
    return P.mutation_rule("R-PURE/C08", [(l, merged[l]) for l in labels], ALL_ROOTS,
                           "the read entry point was called (an argument, self, or an object reachable from them)", floor=30)


def r_escape_c08(ctx):
    merged, labels = P.pure_jobs(ctx)
    return P.escape_rule("R-ESCAPE/C08", [(l, merged[l]) for l in labels], "PRIV", ALL_ROOTS, "used for casts", floor=1)


# -- C16 -----------------------------------------------------------------------------------
def r_pure_c16(ctx):
    merged, labels = P.parse_jobs(ctx)
    return P.mutation_rule("R-PURE/C16", [(l, merged[l]) for l in labels], {"spec", "global"},
                           "the parser was called (its spec argument or anything reachable from it)", floor=10)


# -- C18 / C12 / C13 / C15 / C17 ----------------------------------------------------------------
def r_pure_c18(ctx):
    m = P.misc_jobs(ctx)["add_schema"]
    return P.mutation_rule("R-PURE/C18", [("add_schema", m)], {"T", "R", "global"},
                           "add_schema was called (the added schema, the root path, or anything reachable from them)", floor=2)


def r_alias_c18(ctx):
    m = P.misc_jobs(ctx)["add_schema"]
    return P.alias_rule("R-ALIAS/C18", m, "S", {"T"}, "the added schema")


def r_pure_ser(name, keys, roots):
    def rule(ctx):
        j = P.misc_jobs(ctx)
        r = P.mutation_rule(name, [(k, j[k]) for k in keys], set(roots) | {"global"}, "the serialiser was called (self or anything reachable from it, or module-level state)", floor=0)
        # the serialised structure must not hand out module-level mutable objects
        for k in keys:
            for ret in j[k].rets:
                orgs = {o[0] for o in ret.all_orgs(6)}
                inst = {"entry": k, "returned": ret.short()[:100], "aliases module-level state": "global" in orgs}
                r.instances.append(inst)
                if "global" in orgs:
                    from .report import Finding
                    r.fail(Finding(name, f"R-FRESH|{k}", "valida", f"the value returned by {k} contains a module-level mutable object: every caller receives the same object, so an edit of one result changes later results", []))
                else:
                    r.ok()
        return r
    return rule


def r_pure_c15(ctx):
    merged, labels = P.pure_jobs(ctx)
    keep = [l for l in labels if l in ("validate", "validate_wrapped", "rule_test", "rule_test_shared")]
    return P.mutation_rule("R-PURE/C15", [(l, merged[l]) for l in keep], ALL_ROOTS,
                           "validation with casts was called (only the private deep copy may be written)", floor=10)


def r_escape_c15(ctx):
    merged, labels = P.pure_jobs(ctx)
    keep = [l for l in labels if l in ("validate", "validate_wrapped", "rule_test", "rule_test_shared")]
    return P.escape_rule("R-ESCAPE/C15", [(l, merged[l]) for l in keep], "PRIV", ALL_ROOTS, "used for casts", floor=1)


def r_pure_c17(ctx):
    merged, labels = P.pure_jobs(ctx)
    keep = [l for l in labels if l in ("filter", "filter_wrapped", "rule_test")]
    return P.mutation_rule("R-PURE/C17", [(l, merged[l]) for l in keep], ALL_ROOTS,
                           "the condition was evaluated (stored path arguments must be resolved per evaluation, never overwritten)", floor=10)


def r_global_c09(ctx):
    merged, labels = P.parse_jobs(ctx)
    keep = [l for l in labels if l.startswith("conditions.")]
    return P.mutation_rule("R-GLOBAL/C09", [(l, merged[l]) for l in keep], {"global"},
                           "parsing (module-level state: a parse must depend on the spec only)", floor=5)


def r_pure_c20(ctx):
    j = P.misc_jobs(ctx)
    return P.mutation_rule("R-PURE/C20", [("to_tree", j["to_tree"])], {"schema", "from_path", "global"},
                           "the documentation tree was requested (the schema, its rules, or module-level state: every call must build a fresh tree)", floor=5)


PROPERTIES = {
    "C01": dict(
        rules=[r_raise_c01, SH.rule_once_c01, SH.rule_tt_c01, SG.rule_sig, SH.rule_ops, SH.rule_preproc],
        explanation=(
            "Clauses decided: (1) error containment of the per-item loop - every operation the 32 comparison functions, the pre-processors and "
            "argument resolution apply to an item may only raise what the handlers in Condition._filter cover (exception-effect analysis); "
            "(2) each per-item flag list is appended to exactly once on every path through the item loop, which visits every key/value; "
            "(3) the result formula is `not (pre-processor error or callable error or callable false)` by truth-table evaluation, and the data / keys / "
            "failure_indices views are the partition induced by it; (4) every DSL constructor binds the comparison function of its own name with the "
            "same parameters; (5) each comparison function's return expression normalises to its documented meaning; (6) label / datum kind / "
            "pre-processor agree for the 7 condition classes.  Not decided: the truth value Python computes for a particular item/argument pair."
        ),
        assumptions=COMMON_ASSUMPTIONS + [SHAPE_ASSUMPTION],
    ),
    "C02": dict(
        rules=[P.rule_newinit, r_pure_c02, SH.rule_chain, SH.rule_tt_c02, SH.rule_partand],
        explanation=(
            "Clauses decided: (1) no operand is re-initialised by a constructor that __new__ short-circuited; (2) building a combination with & | ^ "
            "and inspecting it (flatten / is_like / is_null) performs no store into an operand (mutation analysis); (3) for and / or / xor the spec key, "
            "class, operator dunder, FLATTEN_SYMBOL, operator.* passed by _filter, FilteredData class and its operator agree, children filter the same "
            "data and results are combined element-wise; (4) the null check returns the other operand for every is_null combination (truth table) and only "
            "the NullCondition class counts as null; spec lists are folded over every element; (5) path parts and-combine their conditions.  "
            "Not decided: that a particular tree's booleans equal the Boolean combination for every document (follows from (3) and C01 under the trusted model)."
        ),
        assumptions=COMMON_ASSUMPTIONS + [SHAPE_ASSUMPTION],
    ),
    "C03": dict(
        rules=[r_raise_c03, R.rule_kind, S2.rule_deleg, S2.rule_lockstep, r_pure_c03, SH.rule_tt_c01, SH.rule_once_c01, SH.rule_chain],
        explanation=(
            "Clauses decided: (1) 'a part that does not apply to a node matches nothing rather than raising' - every operation reachable from DataPath.get_data / Data.get "
            "on a document-derived value, and every raise depending on one (container-kind checks of the parts, Data.__init__, key/index refusal), is covered by the per-node handler "
            "(exception-effect analysis, modifier-free paths); (2) all entry points delegate to get_data and the not-found result is None / [] by path kind; "
            "(3) the frontier bookkeeping visits every node of the previous level once.  Not decided: that the selected set equals the part-by-part walk for every path x document."
        ),
        assumptions=COMMON_ASSUMPTIONS + [SHAPE_ASSUMPTION],
    ),
    "C04": dict(
        rules=[S2.rule_lockstep, S2.rule_enum, S2.rule_writers, S2.rule_deleg],
        explanation=(
            "Clauses decided: (1) value frontier and path frontier advance in lock-step: parent paths are looked up by the node's position in the full previous frontier, both frontiers are "
            "extended from the same filtered object or skipped together, only length-preserving steps touch them before they are zipped; (2) each datum / multiplicity modifier has a method, "
            "an enum member and a branch that agree (type / len / keys / values; first / last / single / all); (3) modifier helpers set one field on a fresh copy (so application order cannot matter), "
            "multiplicity is refused on concrete paths, and path fields are written only by the constructor.  Not decided: truthfulness of the reported keys for all documents."
        ),
        assumptions=[SHAPE_ASSUMPTION, "the filtered object's `.data` and `.keys` are the partition views decided under C01 (R-TT/C01)"],
    ),
    "C05": dict(
        rules=[S2.rule_collect, S2.rule_record, S2.rule_flag, S2.rule_lockstep, S2.rule_thread, S2.rule_reasons, SH.rule_tt_c01, SH.rule_once_c01],
        explanation=(
            "Clauses decided: (1) collection discipline of RuleTest._test - selection with paths on the test's own document, path-exists test, filter under that guard, verdict = all(result), "
            "every failing item and only failing items recorded, failures published after collection, count = len; Rule.test returns a fresh RuleTest on the (cast) copy; "
            "(2) the failure record carries the item's own index / value / concrete path / reasons, all read at one index; (3) paths are split off exactly where data_has_paths says; "
            "(4) concrete paths stay aligned with values (R-LOCKSTEP); (5) the source document is threaded unchanged.  Not decided: 'at least one textual reason', and equality of the failure list "
            "with the set of failing nodes for every document beyond this discipline."
        ),
        assumptions=[SHAPE_ASSUMPTION],
    ),
    "C06": dict(
        rules=[S2.rule_fold, S2.rule_sort, S2.rule_rettype, R.rule_report_raises, S2.rule_collect],
        explanation=(
            "Clauses decided: (1) is_valid / num_failures / num_rules_tested are order-insensitive reducers (all / sum) of the per-rule attribute over all rule tests; rule_tests tests every rule once "
            "on the same document and copy; validate builds a fresh result each call; (2) every binding of Schema.rules is sorted(<all rules>, key=len(path)) - stable, ascending; "
            "(3) both failure reports return a str on every path and their loops visit every element.  Not decided: numeric equality of the aggregates with per-rule values for run-time data."
        ),
        assumptions=[SHAPE_ASSUMPTION, "cast-free rule tests cannot influence each other: decided under C08 (R-PURE)"],
    ),
    "C07": dict(
        rules=[r_raise_c07_validate, r_raise_c07_rule_test, S2.rule_guarded],
        explanation=(
            "Static exception-effect analysis (abstract interpretation over types x origins x taint) of every function reachable "
            "from Schema.validate and Rule.test with the document as tainted input of unknown JSON type: every operation applied to a "
            "document-derived value and every explicit raise control-dependent on one is an obligation; it must be covered by a handler "
            "on every analysed call path.  Decides error containment structurally for all documents; it does not decide verdict values."
        ),
        assumptions=COMMON_ASSUMPTIONS,
    ),
    "C08": dict(
        rules=[P.rule_newinit, r_pure_c08, r_escape_c08],
        explanation=(
            "Ownership / mutation analysis (abstract interpretation over origins) of every function reachable from the read entry points "
            "(filter / test / test_all / Data.filter / Data.get / DataPath.get_data / part filters / Rule.test / Schema.validate and every "
            "property and report method of the result classes): every attribute store, subscript store, augmented assignment and mutating "
            "call is an obligation whose abstract target must be fresh or the private cast copy, never an argument, self or anything "
            "reachable from them; nothing of the caller's may be stored into the private copy; __init__ never runs on an object that "
            "__new__ short-circuited to.  For this property the structural statement is the property (closed world)."
        ),
        assumptions=COMMON_ASSUMPTIONS + ["callees unknown to the analyser are assumed not to mutate their arguments (counted as 'unmodelled' events in the evidence)"],
    ),
    "C09": dict(
        rules=[SG.rule_sig, SG.rule_tables_c09, SG.rule_ladder, RF.rule_reflect, SG.rule_tokens, SH.rule_tt_c02, r_global_c09, S2.rule_precoerce],
        explanation=(
            "Clauses decided: every DSL constructor is reachable from a spec and means the same comparison - (1) constructor <-> callable name, parameters, "
            "kinds, storage and reachability after lower-casing (R-SIG); (2) alias / pre-processor / type-name / operator / datum tables are closed and consistent "
            "(R-TABLE); (3) the argument-dispatch ladder, evaluated for each of the constructor signatures, takes exactly one branch whose call binds every "
            "parameter (R-LADDER); (4) names a spec can reach by reflection are exactly DSL names (R-REFLECT); (5) every key token is accounted for on each "
            "accepting branch (R-TOKENS); (6) and/or/xor lists are folded over every element.  Not decided: equality of the parsed object with the DSL-built one and identical filtering for every term."
        ),
        assumptions=COMMON_ASSUMPTIONS + [SHAPE_ASSUMPTION],
    ),
    "C11": dict(
        rules=[SG.rule_sig, SG.rule_ladder, SG.rule_tables_c11, SG.rule_conv, SH.rule_tt_c02, S2.rule_names, SG.rule_tokens, R.rule_c19_raises],
        explanation=(
            "Clauses decided: (1) every constructor stores its arguments the way the serialiser reads them (keyword / *args / **kwargs); (2) writer and reader "
            "ladders, evaluated for all constructor signatures, pick branches with compatible JSON shapes; (3) type-name tables are mutual inverses; "
            "(4) every conversion the reader applies (type names for dtype / is_instance / keys_is_instance, scalar and list; data-path mappings) has an inverse in the writer; "
            "combinations serialise both children under their own symbol.  Not decided: equality / identical filtering of the rebuilt condition for all terms."
        ),
        assumptions=COMMON_ASSUMPTIONS + [SHAPE_ASSUMPTION],
    ),
    "C12": dict(
        rules=[S2.rule_guarded, r_pure_ser("R-PURE/C12", ["to_part_specs", "simplify"], ["path"]), S2.rule_names, SH.rule_tt_c02, R.rule_c19_raises, S2.rule_eqwrite],
        explanation=(
            "Clause decided: a primitive or bare-type part spec is emitted only under guards that establish its meaning, otherwise serialisation raises - simplify() emits the 'value' argument "
            "only for a single Key/Index equal_to condition of the right part class (full guard sets checked), to_part_specs never reads a condition's argument directly, emits a bare type only "
            "for a null condition without label, and refuses everything else; the serialisers store nothing into the path and hand out no shared module-level object.  "
            "Not decided: that the rebuilt path selects the same nodes."
        ),
        assumptions=[SHAPE_ASSUMPTION] + COMMON_ASSUMPTIONS[:2],
    ),
    "C13": dict(
        rules=[S2.rule_fields, SG.rule_castinv, r_pure_ser("R-PURE/C13", ["rule_to_json", "schema_to_json"], ["rule", "schema"]), S2.rule_sort, S2.rule_eq_const_fields, R.rule_c19_raises, S2.rule_eqwrite, S2.rule_guarded],
        explanation=(
            "Clauses decided: (1) Rule.to_json_like emits only JSON-typed fields (condition / path through their own serialisers, cast as type names), the keys it writes are the keys from_spec reads, "
            "schemas map their rule list element-wise; (2) by finite evaluation over CAST_LOOKUP, what the writer emits for each cast parses back to the same cast; "
            "(3) fields that equality compares but the JSON form does not carry are only ever constant; serialisation is pure; (4) the path writer the rule serialiser calls emits a plain or explicit part only "
            "under tests that establish which part it stands for (R-GUARDED, shared with C12).  Not decided: equality of results on every document (inherits C11/C12)."
        ),
        assumptions=[SHAPE_ASSUMPTION] + COMMON_ASSUMPTIONS[:2],
    ),
    "C14": dict(
        rules=[E.rule_eqstate, E.rule_eq_pure, S2.rule_eq_const_fields],
        explanation=(
            "For each of the 18 classes with value equality: the MRO-resolved __eq__ reads every instance field of the class on both operands (following "
            "super().__eq__, _members() and property getters), compares exact types symmetrically before touching the other operand, combination equality "
            "is invariant under swapping the children, and no __eq__ stores into its operands (mutation analysis).  Exempt: Rule.doc.  "
            "Not decided: transitivity over argument values with exotic ==, and multiset-versus-set semantics of unrecognised comparison forms (reported as undecided)."
        ),
        assumptions=COMMON_ASSUMPTIONS + [SHAPE_ASSUMPTION],
    ),
    "C15": dict(
        rules=[r_pure_c15, r_escape_c15, r_raise_c07_rule_test, S2.rule_looptry, S2.rule_guarded, SG.rule_castinv, S2.rule_lockstep],
        explanation=(
            "Clauses decided: (1) casts write only into a deep private copy (mutation analysis of Rule.test / Schema.validate: every write reachable from them targets the deepcopy, shared across a schema's rules); "
            "(2) nothing of the caller's is stored into the copy - only the freshly cast value; (3) a cast that fails (whatever the cast table's functions can raise) leaves the node and does not abort the other nodes "
            "(handler coverage by exception-effect analysis; try/except inside the per-node loop); (4) the write-back uses the cast result, the copy and the node's own concrete path; cast tables are invertible.  "
            "Not decided: that exactly the castable nodes are replaced for every document."
        ),
        assumptions=COMMON_ASSUMPTIONS + [SHAPE_ASSUMPTION],
    ),
    "C16": dict(
        rules=[r_pure_c16, S2.rule_noclosure, S2.rule_eq_const_fields],
        explanation=(
            "Ownership / mutation analysis of the ten parse entry points (ConditionLike/DataPath/ContainerValue/Rule/Schema from_spec, "
            "from_json_like, from_part_specs, init_rules) with the spec argument as protected origin: every store / mutating call reachable "
            "from them must target a fresh object (a copy), never the caller's spec structure or anything reachable from it. "
            "Decides 'parsing does not change the spec' for all specs; equality of two parses then rests on C14 and on the absence of "
            "module-level mutable state."
        ),
        assumptions=COMMON_ASSUMPTIONS,
    ),
    "C17": dict(
        rules=[S2.rule_thread, S2.rule_depth, r_pure_c17, SG.rule_tokens, r_raise_c03, S2.rule_precoerce],
        explanation=(
            "Clauses decided: (1) source_data is forwarded unchanged along every call edge from the rule test to argument resolution; (2) the resolver descends into every container kind in which the parser "
            "can place a path object (lists, tuples, mapping values), resolves with get_data(source_data, return_paths=False) and builds new containers; the parser stores whatever DataPath.from_spec returns "
            "(a path, or the un-escaped literal of a '\\path' mapping), and the escape branch precedes the single-key check; (3) evaluating a condition stores nothing into it (stored path arguments are never overwritten).  "
            "Not decided: agreement of verdicts with the literal-substituted rule for all documents."
        ),
        assumptions=COMMON_ASSUMPTIONS + [SHAPE_ASSUMPTION],
    ),
    "C18": dict(
        rules=[r_pure_c18, r_alias_c18, S2.rule_once_c18, S2.rule_sort, S2.rule_writers, S2.rule_derived, S2.rule_reroot],
        explanation=(
            "Clauses decided: (1) add_schema performs no store into the added schema, the root path or anything reachable from them (mutation analysis) and does not share the added schema's rule list with the receiver; "
            "(2) exactly one re-rooted rule (root_path / rule.path) is appended per rule of the added schema on every path; the result is re-sorted by path length; "
            "(3) path fields are written only by the path constructor (so `/` recomputes derived state).  Not decided: behavioural equivalence with 'T judged at R'."
        ),
        assumptions=COMMON_ASSUMPTIONS + [SHAPE_ASSUMPTION],
    ),
    "C19": dict(
        rules=[RF.rule_reflect, R.rule_c19_raises, P.rule_newinit, SG.rule_tokens, S2.rule_swallow, S2.rule_popuse, S2.rule_arity],
        explanation=(
            "Exception-effect analysis of the ten parse entry points with the spec as tainted input of unknown JSON type: every operation on a "
            "spec-derived value (attribute / method access, subscripts, next(iter()), unpacking, table lookups keyed by spec tokens) and every "
            "explicit raise is an obligation; what can escape a parser must be a Malformed* error, TypeError, ValueError or a KeyError naming a "
            "mandatory rule field - never AttributeError / IndexError / StopIteration / RuntimeError / RecursionError.  Reflection on spec tokens "
            "must be bounded by a constant table whose entries are all DSL names (R-REFLECT); __init__ must not re-initialise an operand (R-NEWINIT: "
            "the RecursionError route); the operator branch must match the whole key (R-TOKENS); errors raised once a data-path argument has been recognised must not be of a class the condition parser's 'is this a path?' probe swallows (R-SWALLOW).  The 'definite errors are rejected' half is decided only for unknown / surplus tokens; arity errors are left to Python's call protocol."
        ),
        assumptions=COMMON_ASSUMPTIONS,
    ),
}

PROPERTIES["C20"] = dict(
    rules=[H.rule_taint, H.rule_balance, H.rule_defassign, H.rule_order, H.rule_always, r_pure_c20, H.rule_nodekey, H.rule_exhaust],
    explanation=(
        "Clauses decided: (1) in write_tree_html every schema-derived value (nested_tree, _path and everything derived) reaches the returned string only through html.escape "
        "(taint analysis of every assignment that flows into the output; sanitiser html.escape; recursive call by induction); (2) on every path through the per-child body the "
        "appended tag sequence is balanced, every other HTML fragment is balanced on its own, the node wrapper opens and closes one div; (3) no possibly-unbound local in the "
        "type formatter, the HTML writer, to_tree and the always-applicable helpers; (4) the 'required' flag accumulates monotonically (order-independent) and derives from "
        "always-applicable required_keys conditions, which are collected only under the 'no operator or only and' gate; (5) to_tree stores nothing into the schema (a fresh tree per call).  "
        "Not decided: each rule appearing exactly once, parent-before-child, flat = nested (properties of dictionaries keyed by run-time strings)."
    ),
    assumptions=[SHAPE_ASSUMPTION, "html.escape is the only sanitiser; anchor_root / heading_start_level / show_root_heading / _depth are caller-supplied, not schema text"] + COMMON_ASSUMPTIONS[:2],
)

NOT_APPLICABLE = {
    "C10": "equality and identical behaviour of two construction routes over an unbounded spec-term space x YAML text x documents: "
           "quantifies over run-time values; only exact-shape matches on ~130 lines of pop-driven branching could be written, which would "
           "fire on behaviour-preserving rewrites (DESIGN.md section 7). Its structural by-products are decided under C16/C19/C13/C09/C17.",
}

_AI = "static analysis by abstract interpretation (types x origins x taint) over the resolved call graph"
MANIFEST_TEXT = {
    "C20": dict(
        level="Decides, for every tree and every path through the writer: escaping of all schema-derived text (taint), tag balance, absence of unbound locals, order-independence of the required flag, the always-applicable gate, and purity of to_tree. "
              "Structural faithfulness of the tree (each rule once, parent before child, flat = nested) is not decided.",
        note="trusts html.escape as sanitiser and the tag tokeniser (tags are literal in the templates); 4 parameters are exempt as caller-supplied",
        technique="intra-procedural taint analysis with html.escape as sanitiser, tag-balance check over enumerated paths of string templates, definite-assignment analysis, monotone-accumulation rule",
    ),
    "C03": dict(
        level="Decides the clause the suite never exercises - an inapplicable part matches nothing instead of raising - for all modifier-free paths and documents, plus delegation of the entry points and frontier bookkeeping. "
              "Equality of the selected set with the specification walk is not decided.",
        note="trusts the operator->exception table and the closed-world assumption",
        technique=_AI + "; structural rules for delegation and bookkeeping",
    ),
    "C04": dict(
        level="Decides alignment of values and concrete paths (lock-step bookkeeping), agreement of modifier enum / method / branch, and that modifiers are order-independent single-field copies. "
              "Truthfulness of the keys themselves rests on C01's partition views.",
        note="recognised-form rules: unrecognised rewrites are undecided, not alarms",
        technique="structural dataflow rules on DataPath.get_data (index provenance, same-source extension, length preservation) + enum/method/branch agreement",
    ),
    "C05": dict(
        level="Decides the collection discipline of a rule test (every failing item and only failing items, verdict formula, record fields, path alignment, document threading). "
              "Behavioural equality with the set of failing nodes for every document is not decided.",
        note="recognised-form rules over RuleTest._test, Rule.test, FilteredDataItem and the flag sites",
        technique="structural path / guard rules on the AST (append counting on all paths, guard normal forms, keyword binding)",
    ),
    "C06": dict(
        level="Decides that the aggregates are order-insensitive folds over all rule tests, that rules are stably sorted by path length, that validate builds a fresh result, and that reports are strings on every path.",
        note="recognised-form rules; numeric equality with per-rule values follows under the trusted model of all/sum",
        technique="recognised-form rules on reducers, sort bindings and return types",
    ),
    "C12": dict(
        level="Decides the 'never silently emit a different path' clause structurally: every primitive / bare-type emission is under the guards that establish its meaning, everything else raises; serialisation is pure and hands out no shared state.",
        note="the guard sets of simplify() are frozen from reading the code (8 conjuncts); a behaviour-preserving rewrite that drops none of them stays silent",
        technique="guard-set (dominating condition) rule + mutation / aliasing analysis of the serialisers",
    ),
    "C13": dict(
        level="Decides JSON-typing and reader/writer field agreement of the rule / schema serialisers, cast round trip by finite evaluation over the whole cast table, that non-serialised compared fields stay constant, and the guard sets of the path writer it calls.",
        note="finite evaluation covers every entry of CAST_LOOKUP; document-level equality inherits C11/C12",
        technique="finite evaluation of the writer's cast expression against the reader's tables + field-agreement rules",
    ),
    "C15": dict(
        level="Decides the private-copy discipline (only the deep copy is written, nothing of the caller's stored into it), cast-failure containment per node, and write-back provenance. "
              "Does not decide that exactly the castable nodes are replaced for every document.",
        note="trusts the builtin effect table, the operator->exception table and the cast tables as read from source",
        technique=_AI + " for mutation / escape / handler coverage; structural rule for try scope and write-back",
    ),
    "C17": dict(
        level="Decides threading of the source document, resolver depth versus parser placement depth, escape handling order, and purity of evaluation with respect to stored path arguments.",
        note="recognised-form rules plus the C08 mutation analysis restricted to the evaluation entry points",
        technique="call-site keyword forwarding rule, placement-depth vs resolver-depth comparison, mutation analysis",
    ),
    "C18": dict(
        level="Decides that add_schema leaves the added schema and root untouched and unshared, adds exactly one re-rooted rule per rule, re-sorts, and that path concatenation goes through the constructor and keeps the appended path's modifiers. "
              "One known finding (F36: data-path arguments of the added rules' conditions are not re-rooted) is listed.",
        note="condition / cast / doc objects of the added rules are shared by design (immutable by C08); F36 is recorded in known_findings.json",
        technique="mutation + container-aliasing analysis of add_schema; append-counting and sort-binding rules",
    ),
    "C01": dict(
        level="Decides six structural clauses, each a necessary condition of the property, for all conditions and documents at once: error containment of the item loop, one flag set per item, "
              "result formula and partition views, constructor<->callable binding, documented meaning of each comparison (normal-form oracle), pre-processor table. Does not decide run-time truth values.",
        note="trusts the operator->exception table, the 32-entry meaning oracle in vstatic/rules/shape.py (the documented meaning of each comparison) and the closed-world assumption",
        technique=_AI + " for error containment; AST normal-form / truth-table / signature-agreement rules for the rest",
    ),
    "C02": dict(
        level="Decides: operands are never re-initialised or stored into by building / inspecting a combination; the and/or/xor operator chain is consistent end to end; null identity by truth table. "
              "The Boolean value of a particular tree on a particular document is not decided.",
        note="trusts the builtin effect table and the closed-world assumption",
        technique="static mutation analysis (abstract interpretation over origins) + sibling-agreement and truth-table rules on the AST",
    ),
    "C07": dict(
        level="Sound-by-construction over-approximation, for all documents at once, of the exceptions that can escape Schema.validate / Rule.test "
              "because of document content: every operation on a document-derived value and every raise control-dependent on one must be under a covering handler. "
              "Decides error containment (the property itself, under the stated Python model); says nothing about verdict values.",
        note="trusts the operator->exception table for JSON-like operands, the closed-world assumption and 6 named exemptions each tied to a quantifier clause or to another rule",
        technique="static exception-effect analysis by abstract interpretation (types x taint) over the resolved call graph",
    ),
    "C08": dict(
        level="Effect analysis over all read entry points: no store or mutating call reachable from them targets a pre-existing object, for every input and every call history "
              "(absence of writes to shared objects makes results independent of history and interleaving). This is the property itself under the closed-world assumption.",
        note="trusts the builtin effect table (which builtin methods mutate / copy), the field-type hints and the closed-world assumption; Data.extract_paths is analysed only under the internal flag values the package itself passes",
        technique="static ownership / mutation (effect) analysis by abstract interpretation over origin labels, plus a syntactic __new__/__init__ guard rule",
    ),
    "C09": dict(
        level="Decides reachability and binding of every DSL constructor from specs (signatures, tables, dispatch ladder evaluated for each signature, reflection whitelists, token accounting). "
              "Equality of parsed and DSL-built objects on all terms is not decided.",
        note="trusts finite evaluation of the constant tables and ladder tests by the analyser's own evaluator",
        technique="signature / table / dispatch-ladder agreement by finite evaluation of constant expressions over the program model",
    ),
    "C11": dict(
        level="Decides agreement of the serialiser with the parser on storage convention, JSON shape per signature, type-name tables and converters. One known finding (F13: no writer for data-path arguments) is listed. "
              "Round-trip equality on all terms is not decided.",
        note="trusts finite evaluation of ladder tests and tables; F13 is recorded in known_findings.json",
        technique="reader/writer agreement by finite evaluation of dispatch ladders and constant tables",
    ),
    "C14": dict(
        level="Decides that every __eq__ compares all state on both sides with an exact symmetric type test first, that combination equality is swap-invariant, and that equality is pure. "
              "Necessary for 'equal implies identical behaviour'; transitivity with exotic argument values is not decided.",
        note="trusts the field enumeration of the program model (every `self.X = ...` in the class and its bases)",
        technique="set comparison of fields read by __eq__ (MRO-resolved, following helper methods) against instance state + mutation analysis of __eq__",
    ),
    "C16": dict(
        level="Effect analysis: no store or mutating call reachable from any parse entry point targets the caller's spec or anything reachable from it - for every spec and every number of repeated parses. "
              "Decides the non-mutation clause completely; 're-parsing gives an equal object' follows from it plus determinism (no global state) and C14.",
        note="trusts the builtin effect table (pop/update/append/... mutate; dict()/list()/deepcopy copy) and the closed-world assumption",
        technique="static ownership / mutation (effect) analysis by abstract interpretation over origin labels",
    ),
    "C19": dict(
        level="Over-approximation, for every spec structure at once, of the exception classes that can escape the parsers; plus whitelisting of all spec-driven reflection. "
              "Decides the 'never an internal error' half and the 'unknown / surplus names are rejected' part of the other half (unknown part arguments, swallowed malformed paths, ignored arguments); does not decide that every definite arity/shape error is rejected. "
              "One known finding (F37: an argument for a callable without parameters is ignored with a warning) is listed.",
        note="trusts the operator->exception table for JSON-like operands (access kinds not in the table are not checked), and the finite evaluation of the constant whitelisting tables; F37 is recorded in known_findings.json",
        technique="static exception-effect analysis with spec taint (abstract interpretation) + reflection whitelisting by constant-table evaluation",
    ),
}
