import argparse
import json
import os
import sys


def main():
    ap = argparse.ArgumentParser(prog="vstatic")
    sub = ap.add_subparsers(dest="cmd", required=True)
    c = sub.add_parser("check")
    c.add_argument("property")
    c.add_argument("--tier", default=os.environ.get("VERIF_TIER", "quick"), choices=["quick", "thorough"])
    c.add_argument("--repo", default=None)
    r = sub.add_parser("replay")
    r.add_argument("file")
    a = sub.add_parser("all")
    a.add_argument("--tier", default="quick")
    a.add_argument("--repo", default=None)
    sub.add_parser("selfcheck")
    args = ap.parse_args()
    seed = int(os.environ.get("VERIF_SEED", "0") or 0)
    from .engine import main_check
    if args.cmd == "check":
        if args.tier == "thorough":
            from .selftest import main_thorough
            sys.exit(main_thorough(args.property, seed, args.repo))
        sys.exit(main_check(args.property, args.tier, seed, args.repo))
    if args.cmd == "all":
        from .properties import PROPERTIES
        rc = 0
        for pid in sorted(PROPERTIES):
            rc = max(rc, main_check(pid, args.tier, seed, args.repo))
        sys.exit(rc)
    if args.cmd == "replay":
        with open(args.file) as fh:
            rep = json.load(fh)
        pid = rep["property"]
        from .engine import run_property
        violations, known, _ = run_property(pid, "quick", seed, None, quiet=True)
        hit = [v for v in violations if v.key == rep["key"]]
        if hit:
            print(f"VIOLATION property={pid} replay={args.file}")
            print(f"  still reported: {hit[0].message} at {hit[0].where}")
            sys.exit(1)
        print(f"not reproduced on the current tree: {rep['key']}")
        sys.exit(0)
    if args.cmd == "selfcheck":
        from .fixtures import run_fixtures
        sys.exit(run_fixtures())


if __name__ == "__main__":
    main()
