"""Rule results, evidence / replay files, known-findings matching."""

from __future__ import annotations

import json
import os
import time
from dataclasses import dataclass, field
from typing import List

from . import VERIF

if os.environ.get("VSTATIC_EVIDENCE_DIR"):
    EVIDENCE_DIR = os.environ["VSTATIC_EVIDENCE_DIR"]
elif os.environ.get("VSTATIC_REPO") and os.path.realpath(os.environ["VSTATIC_REPO"]) != "/repo":
    # scratch-copy runs never overwrite the committed evidence of /repo
    import tempfile
    EVIDENCE_DIR = os.path.join(tempfile.gettempdir(), "vstatic-evidence-scratch")
else:
    EVIDENCE_DIR = os.path.join(VERIF, "evidence")
REPLAY_DIR = os.path.join(EVIDENCE_DIR, "replay")
KNOWN_FILE = os.path.join(VERIF, "known_findings.json")


@dataclass
class Finding:
    rule: str
    key: str            # rule|function|construct (normalised text) - never a line number
    where: str          # file:line of the construct on the analysed tree
    message: str
    witness: list = field(default_factory=list)   # call-graph / CFG path, innermost last

    def as_dict(self):
        return {"rule": self.rule, "key": self.key, "where": self.where, "message": self.message, "witness": self.witness}


@dataclass
class RuleResult:
    rule: str
    instances: list = field(default_factory=list)    # what was enumerated (dicts / strings)
    obligations: int = 0
    discharged: int = 0
    findings: List[Finding] = field(default_factory=list)
    undecided: list = field(default_factory=list)
    notes: list = field(default_factory=list)
    exemptions_used: list = field(default_factory=list)
    floor: int = 0       # minimum instance count confirmed by hand on the pinned tree

    def ok(self, n=1):
        self.obligations += n
        self.discharged += n

    def fail(self, finding: Finding):
        self.obligations += 1
        self.findings.append(finding)


def load_known():
    if not os.path.exists(KNOWN_FILE):
        return []
    with open(KNOWN_FILE) as fh:
        return json.load(fh)["findings"]


def write_evidence(pid, tier, seed, results: List[RuleResult], explanation, assumptions, wall, violations, known_hits, extra=None):
    os.makedirs(EVIDENCE_DIR, exist_ok=True)
    obligations = sum(r.obligations for r in results)
    discharged = sum(r.discharged for r in results)
    instances = sum(len(r.instances) for r in results)
    distinct = len({json.dumps(i, sort_keys=True, default=str) for r in results for i in r.instances})
    samples = []
    for r in results:
        for i in r.instances[:6]:
            samples.append({"rule": r.rule, "instance": i})
    cov = {
        "explanation": explanation,
        "obligations": obligations,
        "discharged": discharged,
        "evaluations": max(instances, 1),
        "distinct_nontrivial": distinct,
        "rule": "an evaluation is one rule instance enumerated from /repo's current source (a call site, handler, function body, table entry, field, path); distinct = distinct instances, each of which carried at least one obligation",
        "samples": samples[:60],
        "exhaustive": True,
        "checker_cmd": f"/venv/bin/python -m vstatic check {pid} --tier {tier}",
        "trusted_base": ["CPython ast module", "vstatic.pymodel operator/exception table", "vstatic.hints field-type table (verified against source each run)"],
        "per_rule": [
            {
                "rule": r.rule,
                "instances": len(r.instances),
                "floor": r.floor,
                "obligations": r.obligations,
                "discharged": r.discharged,
                "findings": [f.as_dict() for f in r.findings],
                "undecided": r.undecided,
                "notes": r.notes,
                "exemptions_used": r.exemptions_used,
            }
            for r in results
        ],
        "known_findings_matched": known_hits,
    }
    if extra:
        cov.update(extra)
    ev = {
        "property_id": pid,
        "tier": tier,
        "seed": seed,
        "level": "other",
        "coverage": cov,
        "assumptions": assumptions,
        "wall_s": round(wall, 3),
        "violations": violations,
    }
    path = os.path.join(EVIDENCE_DIR, f"{pid}.json")
    tmp = path + ".tmp"
    with open(tmp, "w") as fh:
        json.dump(ev, fh, indent=1, default=str)
    os.replace(tmp, path)
    return path


def write_replay(pid, n, finding: Finding, repo):
    os.makedirs(REPLAY_DIR, exist_ok=True)
    path = os.path.join(REPLAY_DIR, f"{pid}-{n}.json")
    with open(path, "w") as fh:
        json.dump({"property": pid, "repo": repo, **finding.as_dict()}, fh, indent=1, default=str)
    return path
