"""Recognised-form rules, part 2: path resolution bookkeeping, rule test collection, schema
aggregates, serialisers, argument threading (C03-C06, C12, C13, C15, C17, C18)."""

from __future__ import annotations

import ast

from .. import AnalysisError
from ..finite import ConstEval, Undecidable
from ..flatten import helper_closure
from ..program import FuncInfo, norm, head
from ..report import Finding, RuleResult
from .shape import canon, count_appends, single_return, INF
from ..anchors import filter_hook_name, filter_impl
from .astutil import expand_aliases, facts_at, inline_helpers as inline_any, local_alias_map, stmt_of


def _parents(node):
    p = node
    while hasattr(p, "_parent"):
        p = p._parent
        yield p


def _enclosing(node, kind):
    for p in _parents(node):
        if isinstance(p, kind):
            return p
    return None


def _returns(func: FuncInfo):
    return [n for n in ast.walk(func.node) if isinstance(n, ast.Return)]


# ------------------------------------------------------------------------------------------
# C03
# ------------------------------------------------------------------------------------------
def rule_deleg(ctx):
    prog = ctx.prog
    r = RuleResult("R-DELEG", floor=2)
    g = prog.flat("data.Data.get")
    rets = _returns(g)
    inst = {"Data.get returns": [norm(x.value) for x in rets if x.value is not None]}
    r.instances.append(inst)
    def delegates(v):
        # <some path>.get_data(self, return_paths=return_paths): the receiver may be any of the forms the
        # method builds its path with; document and flag must be handed on unchanged
        if not (isinstance(v, ast.Call) and isinstance(v.func, ast.Attribute) and v.func.attr == "get_data"):
            return False
        args = [norm(a) for a in v.args]
        kws = {k.arg: norm(k.value) for k in v.keywords}
        return (args == ["self"] and kws == {"return_paths": "return_paths"}) or (args == ["self", "return_paths"] and not kws)
    ok = bool(rets) and all(x.value is not None and delegates(x.value) for x in rets)
    if ok:
        r.ok()
    else:
        r.fail(Finding("R-DELEG", "R-DELEG|data.Data.get", f"{g.file}:{g.node.lineno}",
                       "Data.get must delegate every lookup to `data_path.get_data(self, return_paths=return_paths)` so that all entry points agree", []))
    gd = prog.flat("datapath.DataPath.get_data")
    # the return taken when the walk selected nothing: `if not <frontier>: return ...`
    nf = [x for x in _returns(gd) if x.value is not None and isinstance(x._parent, ast.If) and isinstance(x._parent.test, ast.UnaryOp) and isinstance(x._parent.test.op, ast.Not)
          and isinstance(x._parent.test.operand, ast.Name) and x._parent in gd.node.body]
    inst = {"not-found return": [norm(x.value) for x in nf]}
    r.instances.append(inst)
    good = {"None if self.is_concrete else []", "[] if not self.is_concrete else None"}
    bad = {"[] if self.is_concrete else None", "None if not self.is_concrete else []", "None", "[]"}
    if len(nf) == 1 and norm(nf[0].value) in good:
        r.ok()
    elif len(nf) == 1 and norm(nf[0].value) in bad:
        r.fail(Finding("R-DELEG", "R-DELEG|datapath.DataPath.get_data|not-found", f"{gd.file}:{nf[0].lineno}",
                       f"when nothing matches, get_data must return None for a concrete path and [] otherwise; found `{norm(nf[0].value)}`", []))
    else:
        r.undecided.append(inst)
    # the empty path: what is returned with paths is what is returned without (same definition of the value)
    root_if = next((n for n in ast.walk(gd.node) if isinstance(n, ast.If) and canon(n.test) == "not self.parts"), None)
    inst = {"empty-path branch": head(root_if) if root_if is not None else None}
    r.instances.append(inst)
    if root_if is None:
        r.undecided.append(inst)
        return r

    def walk(stmts, defs, out):
        """defs: {var: defining statement | None}; out collects (return node, var, def) - straight-line + if/else."""
        defs = dict(defs)
        for st in stmts:
            if isinstance(st, ast.Return):
                v = st.value
                with_path = isinstance(v, ast.Tuple) and len(v.elts) == 2
                e = v.elts[0] if with_path else v
                if e is None:
                    out.append((st, None, None, None))
                    return None

                def marker(d, name):
                    if isinstance(d, ast.AST):
                        return f"def{id(d)}"
                    return f"{d}" if d is not None else f"free:{name}"
                import copy as _copy

                class Sub(ast.NodeTransformer):
                    def visit_Name(self, n):
                        if isinstance(n.ctx, ast.Load) and n.id not in ("self",):
                            return ast.Name(id="<" + marker(defs.get(n.id), n.id) + ">", ctx=ast.Load())
                        return n
                sig = ast.unparse(Sub().visit(_copy.deepcopy(e)))
                out.append((st, sig, sig, with_path))
                return None
            if isinstance(st, ast.If):
                a = walk(st.body, defs, out)
                b = walk(st.orelse, defs, out)
                if a is None and b is None:
                    return None
                merged = {}
                for k in set(a or {}) | set(b or {}):
                    x, y = (a or b).get(k), (b or a).get(k)
                    merged[k] = x if x is y else ("join", id(st), k)
                defs = merged
                continue
            if isinstance(st, ast.Assign):
                for t in st.targets:
                    for x in ast.walk(t):
                        if isinstance(x, ast.Name) and isinstance(x.ctx, ast.Store):
                            defs[x.id] = st
            elif isinstance(st, (ast.For, ast.While, ast.Try, ast.With)):
                for x in ast.walk(st):
                    if isinstance(x, ast.Name) and isinstance(x.ctx, ast.Store):
                        defs[x.id] = ("loop", id(st), x.id)
        return defs
    found = []
    walk(root_if.body, {}, found)
    inst["returns"] = [f"{norm(rt)} :: {'with path' if wp else 'alone'}" for rt, v, d, wp in found]
    usable = [x for x in found if x[1] is not None]
    if len(usable) < 2 or len(usable) != len(found):
        r.undecided.append(inst)
    else:
        defs_ = {d for _, _, d, _ in usable}
        if len(defs_) == 1:
            r.ok()
        else:
            bad = next(rt for rt, v, d, wp in usable if wp)
            r.fail(Finding("R-DELEG", "R-DELEG|datapath.DataPath.get_data|empty-path-returns", f"{gd.file}:{bad.lineno}",
                           "for the empty path, the value returned together with its path and the value returned alone come from different definitions "
                           f"({inst['returns']}): a datum modifier is applied to one and not to the other", []))
    return r


# ------------------------------------------------------------------------------------------
# C04 / C05: frontier bookkeeping in DataPath.get_data
# ------------------------------------------------------------------------------------------
def _mentions(expr, name, attr):
    return any(isinstance(n, ast.Attribute) and n.attr == attr and isinstance(n.value, ast.Name) and n.value.id == name for n in ast.walk(expr))


def _target_names(t):
    return [n.id for n in ast.walk(t) if isinstance(n, ast.Name)]


def rule_lockstep(ctx):
    """Value frontier and path frontier of DataPath.get_data advance in lock-step.  Roles
    (frontiers, next frontiers, filtered object, index variable) are inferred from the data
    flow, not from variable names; if they cannot be inferred the rule is undecided."""
    prog = ctx.prog
    r = RuleResult("R-LOCKSTEP", floor=4)
    f = prog.flat("datapath.DataPath.get_data")
    where = f"{f.file}:{f.node.lineno}"
    part_loop = next((st for st in ast.walk(f.node) if isinstance(st, ast.For) and "self.parts" in ast.unparse(st.iter)), None)
    if part_loop is None:
        # not in get_data nor in an exactly-inlinable helper: look in the helper closure
        for g in helper_closure(prog, prog.func("datapath.DataPath.get_data"))[1:]:
            if any(isinstance(st, ast.For) and "self.parts" in ast.unparse(st.iter) for st in ast.walk(g.node)):
                r.instances.append({"roles": f"part loop lives in {g.qualname}, which cannot be inlined exactly"})
                r.undecided.append({"what": f"part loop in non-inlinable helper {g.qualname}"})
                return r
        raise AnalysisError("get_data: the loop over self.parts not found")
    part_var = _target_names(part_loop.target)[-1]
    fcalls = [n for n in ast.walk(part_loop) if isinstance(n, ast.Call) and isinstance(n.func, ast.Attribute) and n.func.attr == "filter" and isinstance(n.func.value, ast.Name) and n.func.value.id == part_var]
    if not fcalls:
        r.undecided.append({"what": "no `<part>.filter(<node>)` call in the part loop"})
        r.instances.append({"roles": "not inferable"})
        return r
    fcall = fcalls[0]
    # filtered-object variables: assigned from the filter call, or iterating a list that collects such results
    Fvars, collectors = set(), set()
    st = stmt_of(fcall)
    if isinstance(st, ast.Assign) and isinstance(st.targets[0], ast.Name):
        Fvars.add(st.targets[0].id)
    for n in ast.walk(part_loop):
        if isinstance(n, ast.Call) and isinstance(n.func, ast.Attribute) and n.func.attr == "append" and isinstance(n.func.value, ast.Name) and n.args:
            a = n.args[0]
            if a is fcall or (isinstance(a, ast.Name) and a.id in Fvars) or any(x is fcall for x in ast.walk(a)):
                collectors.add(n.func.value.id)
    via_collector = {}
    for n in ast.walk(part_loop):
        if isinstance(n, ast.For):
            it = n.iter
            src = it.args[0] if isinstance(it, ast.Call) and isinstance(it.func, ast.Name) and it.func.id == "enumerate" and it.args else it
            if isinstance(src, ast.Name) and src.id in collectors:
                v = _target_names(n.target)[-1]
                Fvars.add(v)
                via_collector[v] = (n, src.id)
    # next frontiers
    ND, NP = set(), set()
    upd = []
    for n in ast.walk(part_loop):
        tgt, val = None, None
        if isinstance(n, ast.Call) and isinstance(n.func, ast.Attribute) and n.func.attr in ("extend", "append") and isinstance(n.func.value, ast.Name) and n.args:
            tgt, val = n.func.value.id, n.args[0]
        elif isinstance(n, ast.AugAssign) and isinstance(n.target, ast.Name):
            tgt, val = n.target.id, n.value
        elif isinstance(n, ast.Assign) and isinstance(n.targets[0], ast.Name) and not (isinstance(n.value, ast.List) and not n.value.elts):
            tgt, val = n.targets[0].id, n.value
        if tgt is None or tgt in collectors:
            continue
        # value may refer to F.data / F.keys directly or through a loop variable over them
        ctx_exprs = [val]
        for p in _parents(n):
            if isinstance(p, ast.For) and p is not part_loop:
                ctx_exprs.append(p.iter)
            if p is part_loop:
                break
        for Fv in Fvars:
            if any(_mentions(e, Fv, "data") for e in ctx_exprs):
                ND.add(tgt); upd.append(("data", tgt, n, Fv))
            if any(_mentions(e, Fv, "keys") for e in ctx_exprs):
                NP.add(tgt); upd.append(("keys", tgt, n, Fv))
    copies = {}
    for stt in part_loop.body:
        if isinstance(stt, ast.Assign) and isinstance(stt.targets[0], ast.Name) and isinstance(stt.value, ast.Name):
            copies[stt.value.id] = stt.targets[0].id
        elif isinstance(stt, ast.Assign) and isinstance(stt.targets[0], ast.Tuple) and isinstance(stt.value, ast.Tuple) and len(stt.targets[0].elts) == len(stt.value.elts):
            for a, b in zip(stt.targets[0].elts, stt.value.elts):
                if isinstance(a, ast.Name) and isinstance(b, ast.Name):
                    copies[b.id] = a.id
    D = next((copies[x] for x in ND if x in copies), None)
    P = next((copies[x] for x in NP if x in copies), None)
    roles = {"part": part_var, "filtered object": sorted(Fvars), "next value frontier": sorted(ND), "next path frontier": sorted(NP), "value frontier": D, "path frontier": P}
    r.instances.append({"roles": roles})
    if not (ND and NP and D and P and len(ND) == 1 and len(NP) == 1):
        r.undecided.append({"what": "frontier roles not inferable", "roles": roles})
        return r
    nd, np_ = next(iter(ND)), next(iter(NP))
    r.ok()
    # (1) parent path looked up by the node's position in the previous value frontier
    subs = [n for n in ast.walk(part_loop) if isinstance(n, ast.Subscript) and isinstance(n.value, ast.Name) and n.value.id == P and isinstance(n.ctx, ast.Load)]
    for sb in subs:
        inst = {"site": norm(sb)}
        r.instances.append(inst)
        ok, why = False, "index is not the enumerate index of a loop"
        if isinstance(sb.slice, ast.Name):
            for p in _parents(sb):
                if isinstance(p, ast.For) and isinstance(p.target, ast.Tuple) and isinstance(p.target.elts[0], ast.Name) and p.target.elts[0].id == sb.slice.id:
                    it = ast.unparse(p.iter)
                    if it == f"enumerate({D})":
                        ok = True
                    else:
                        why = f"`{sb.slice.id}` enumerates `{it}`, not the previous value frontier `{D}`"
                    break
                if isinstance(p, ast.For) and isinstance(p.target, ast.Name) and p.target.id == sb.slice.id:
                    it = ast.unparse(p.iter)
                    if it == f"range(len({D}))":
                        ok = True
                    else:
                        why = f"`{sb.slice.id}` ranges over `{it}`, not over the positions of the previous value frontier `{D}`"
                    break
        else:
            why = "index expression is not a plain loop index"
            if not isinstance(sb.slice, (ast.Constant, ast.Slice)):
                inst["verdict"] = "undecided"
                r.undecided.append(inst)
                continue
        if ok:
            r.ok()
        else:
            r.fail(Finding("R-LOCKSTEP", f"R-LOCKSTEP|datapath.DataPath.get_data|parent-path-index", f"{f.file}:{sb.lineno}",
                           f"`{norm(sb)}`: the parent path is looked up by an index that is not the node's position in the previous frontier ({why}); "
                           f"after a skipped node every later sibling is reported with the wrong path prefix", []))
    # (1b) a parent path taken from an iterator must be consumed for every node, i.e. before any `continue`
    node_loops = [p for p in ast.walk(part_loop) if isinstance(p, ast.For) and p is not part_loop and any(x is fcall for x in ast.walk(p))]
    iters = {stt.targets[0].id for stt in ast.walk(part_loop) if isinstance(stt, ast.Assign) and isinstance(stt.targets[0], ast.Name) and isinstance(stt.value, ast.Call) and norm(stt.value.func) == "iter" and P in norm(stt.value)}
    for nl in node_loops[:1]:
        for n in ast.walk(nl):
            if isinstance(n, ast.Call) and norm(n.func) == "next" and n.args and isinstance(n.args[0], ast.Name) and n.args[0].id in iters:
                inst = {"site": norm(n)}
                r.instances.append(inst)
                stn = stmt_of(n)
                top = next((b for b in nl.body if b is stn or any(x is stn for x in ast.walk(b))), None)
                idx_n = nl.body.index(top) if top in nl.body else 10 ** 6
                skip_before = [b for b in nl.body[:idx_n] if any(isinstance(x, ast.Continue) for x in ast.walk(b))]
                if skip_before or (top is not stn and isinstance(top, (ast.If, ast.Try))):
                    r.fail(Finding("R-LOCKSTEP", "R-LOCKSTEP|datapath.DataPath.get_data|parent-path-index", f"{f.file}:{n.lineno}",
                                   f"`{norm(n)}` takes the next parent path only for nodes that were not skipped: after a skipped node every later sibling is paired with the previous sibling's path", []))
                else:
                    r.ok()
        # every node of the previous frontier is visited: no early exit from the node loop
        exits = [x for x in ast.walk(nl) if isinstance(x, (ast.Break, ast.Return))]
        inst = {"node loop": head(nl), "early exits": [head(x) for x in exits]}
        r.instances.append(inst)
        if exits:
            r.fail(Finding("R-LOCKSTEP", "R-LOCKSTEP|datapath.DataPath.get_data|node-loop-exit", f"{f.file}:{exits[0].lineno}",
                           f"`{head(exits[0])}` leaves the loop over the nodes of the previous frontier early: later nodes are never filtered, so matches (and the count `single` relies on) are lost", []))
        else:
            r.ok()
    # (2) same filtered object feeds both frontiers, in the same node iteration
    dsrc = {u[3] for u in upd if u[0] == "data"}
    ksrc = {u[3] for u in upd if u[0] == "keys"}
    inst = {"values from": sorted(dsrc), "paths from": sorted(ksrc)}
    r.instances.append(inst)
    def node_iter_of(n):
        loops = [p for p in _parents(n) if isinstance(p, ast.For)]
        return loops[-2] if len(loops) >= 2 and loops[-1] is part_loop else (loops[-1] if loops else None)
    same_iter = len({id(node_iter_of(u[2])) for u in upd}) == 1
    if dsrc == ksrc and len(dsrc) == 1 and same_iter:
        r.ok()
    else:
        r.fail(Finding("R-LOCKSTEP", "R-LOCKSTEP|datapath.DataPath.get_data|same-source", where,
                       f"the value frontier is extended from {sorted(dsrc)}.data and the path frontier from {sorted(ksrc)}.keys (same iteration: {same_iter}): "
                       f"both must come from the same filtered object in the same iteration, or values and paths drift apart", []))
    # (3) both next frontiers reset at the top of the part loop, both copied at its end
    resets = {stt.targets[0].id for stt in part_loop.body if isinstance(stt, ast.Assign) and isinstance(stt.targets[0], ast.Name) and isinstance(stt.value, ast.List) and not stt.value.elts}
    inst = {"reset per part": sorted(resets), "copied": {nd: D, np_: P}}
    r.instances.append(inst)
    if {nd, np_} <= resets:
        r.ok()
    else:
        r.fail(Finding("R-LOCKSTEP", "R-LOCKSTEP|datapath.DataPath.get_data|reset-copy", f"{f.file}:{part_loop.lineno}",
                       f"both next frontiers ({nd}, {np_}) must be reset to [] at the top of the per-part loop; reset: {sorted(resets)}", []))
    # (3b) inside the part loop the frontiers are written only by the two end-of-iteration copies
    for n in ast.walk(part_loop):
        tg = []
        if isinstance(n, ast.Assign):
            tg = [x for t in n.targets for x in ast.walk(t) if isinstance(x, ast.Name) and isinstance(x.ctx, ast.Store)]
        elif isinstance(n, ast.AugAssign) and isinstance(n.target, ast.Name):
            tg = [n.target]
        hit = [x.id for x in tg if x.id in (D, P)]
        mut = (isinstance(n, ast.Call) and isinstance(n.func, ast.Attribute) and isinstance(n.func.value, ast.Name) and n.func.value.id in (D, P)
               and n.func.attr in ("pop", "remove", "insert", "append", "extend", "clear", "sort", "reverse"))
        if not hit and not mut:
            continue
        pairs = None
        if isinstance(n, ast.Assign) and n in part_loop.body and len(n.targets) == 1:
            t0, v0 = n.targets[0], n.value
            if isinstance(t0, ast.Name) and isinstance(v0, ast.Name):
                pairs = [(t0.id, v0.id)]
            elif isinstance(t0, ast.Tuple) and isinstance(v0, ast.Tuple) and len(t0.elts) == len(v0.elts) and all(isinstance(x, ast.Name) for x in t0.elts + v0.elts):
                pairs = [(a.id, b.id) for a, b in zip(t0.elts, v0.elts)]
        is_copy = pairs is not None and all((a, b) in ((D, nd), (P, np_)) for a, b in pairs if a in (D, P))
        inst = {"frontier write in the part loop": norm(n)}
        r.instances.append(inst)
        if is_copy:
            r.ok()
        else:
            r.fail(Finding("R-LOCKSTEP", f"R-LOCKSTEP|datapath.DataPath.get_data|in-loop-write|{norm(n)[:50]}", f"{f.file}:{n.lineno}",
                           f"`{norm(n)}` changes a frontier ({D} / {P}) inside the per-part loop other than by the end-of-iteration copies `{D} = {nd}` / `{P} = {np_}`: "
                           f"values and paths of the next level are then paired with the wrong parents", []))
    # (4) between the part loop and zip(D, P) only length-preserving rebindings may touch a frontier
    following = []
    cur = part_loop
    for p in _parents(part_loop):
        for fld in ("body", "orelse", "finalbody"):
            blk = getattr(p, fld, None)
            if isinstance(blk, list) and cur in blk:
                following += blk[blk.index(cur) + 1:]
        if isinstance(p, ast.stmt):
            cur = p
        if isinstance(p, (ast.FunctionDef, ast.AsyncFunctionDef)):
            break
    Dset, Pset = {D}, {P}

    def length_preserving(v):
        if isinstance(v, ast.Name) and v.id in Dset:
            return True
        if isinstance(v, ast.ListComp) and len(v.generators) == 1 and not v.generators[0].ifs and isinstance(v.generators[0].iter, ast.Name) and v.generators[0].iter.id in Dset:
            return True
        if isinstance(v, ast.Call) and norm(v.func) == "self._extract_specified_datum_type" and len(v.args) == 1 and isinstance(v.args[0], ast.Name) and v.args[0].id in Dset:
            return True
        return False
    zip_seen = False

    def scan(stmts):
        nonlocal zip_seen
        for stt in stmts:
            if zip_seen:
                return
            if isinstance(stt, (ast.If, ast.For, ast.While, ast.Try, ast.With)):
                hdr = [getattr(stt, "test", None), getattr(stt, "iter", None)]
                for h in hdr:
                    if h is not None:
                        check_zip(h)
                if zip_seen:
                    return
                for fld in ("body", "orelse", "finalbody"):
                    scan(getattr(stt, fld, []) or [])
                for h in getattr(stt, "handlers", []):
                    scan(h.body)
                continue
            check_zip(stt)
            if zip_seen:
                return
            bad = None
            if isinstance(stt, ast.Assign) and len(stt.targets) == 1:
                t, v = stt.targets[0], stt.value
                pairs = []
                if isinstance(t, ast.Name):
                    pairs = [(t, v)]
                elif isinstance(t, ast.Tuple) and isinstance(v, ast.Tuple) and len(t.elts) == len(v.elts):
                    pairs = list(zip(t.elts, v.elts))
                elif any(isinstance(x, ast.Name) and x.id in Dset | Pset for x in ast.walk(t)):
                    bad = stt
                joinD, joinP = set(), set()
                for tt, vv in pairs:
                    if not isinstance(tt, ast.Name):
                        continue
                    if length_preserving(vv):
                        joinD.add(tt.id)
                        if tt.id in Dset or not isinstance(vv, ast.Name):
                            r.instances.append({"between loop and zip": norm(stt)})
                            r.ok()
                    elif isinstance(vv, ast.Name) and vv.id in Pset:
                        joinP.add(tt.id)
                    elif tt.id in Dset | Pset:
                        r.instances.append({"between loop and zip": norm(stt)})
                        bad = stt
                Dset.update(joinD)
                Pset.update(joinP)
            elif isinstance(stt, ast.AugAssign) and isinstance(stt.target, ast.Name) and stt.target.id in Dset | Pset:
                r.instances.append({"between loop and zip": norm(stt)})
                bad = stt
            for n in ast.walk(stt):
                if isinstance(n, ast.Call) and isinstance(n.func, ast.Attribute) and isinstance(n.func.value, ast.Name) and n.func.value.id in Dset | Pset and n.func.attr in ("pop", "remove", "insert", "append", "extend", "clear", "sort", "reverse"):
                    r.instances.append({"between loop and zip": norm(n)})
                    bad = n
            if bad is not None:
                r.fail(Finding("R-LOCKSTEP", f"R-LOCKSTEP|datapath.DataPath.get_data|pre-zip|{norm(bad)[:50]}", f"{f.file}:{bad.lineno}",
                               f"`{norm(bad)}` changes one frontier before values and paths are zipped; only length-preserving rebindings of the value frontier (`X = [g(i) for i in X]`, the datum extraction) are allowed there", []))

    def check_zip(node):
        nonlocal zip_seen
        for n in ast.walk(node):
            if isinstance(n, ast.Call) and isinstance(n.func, ast.Name) and n.func.id == "zip" and len(n.args) == 2 and all(isinstance(a, ast.Name) for a in n.args):
                a, b = n.args[0].id, n.args[1].id
                if (a in Dset and b in Pset) or (a in Pset and b in Dset):
                    zip_seen = True
    scan(following)
    inst = {f"zip({sorted(Dset)}, {sorted(Pset)}) present": zip_seen}
    r.instances.append(inst)
    if zip_seen:
        r.ok()
    else:
        r.undecided.append(inst)
    # (5) datum extraction is length-preserving
    ex = prog.cls("datapath.DataPath").lookup_method("_extract_specified_datum_type")
    if ex is None:
        return r    # inlined into get_data: covered by (4)
    pname = ex.params[1].name if len(ex.params) > 1 else "data"
    for c in [n for n in ast.walk(ex.node) if isinstance(n, ast.ListComp)]:
        inst = {"datum extraction": norm(c)}
        r.instances.append(inst)
        if len(c.generators) == 1 and not c.generators[0].ifs and ast.unparse(c.generators[0].iter) == pname:
            r.ok()
        else:
            r.fail(Finding("R-LOCKSTEP", f"R-LOCKSTEP|datapath.DataPath._extract_specified_datum_type|{norm(c)[:50]}", f"{ex.file}:{c.lineno}",
                           "datum extraction must map every selected node (no filter clause): the result is zipped with the concrete paths", []))
    return r


def _modifier_branches(prog, field, enum):
    """{MEMBER: (body, FuncInfo)} of the `if self.<field> == <enum>.<MEMBER>` branches in get_data
    (flattened) or in the private helpers it calls - wherever the dispatch lives."""
    from ..flatten import flat
    funcs = [prog.flat("datapath.DataPath.get_data")] + [flat(prog, g) for g in helper_closure(prog, prog.func("datapath.DataPath.get_data"))[1:]]
    out = {}
    for fn in funcs:
        for n in ast.walk(fn.node):
            if isinstance(n, ast.If) and isinstance(n.test, ast.Compare) and len(n.test.ops) == 1 and isinstance(n.test.ops[0], (ast.Eq, ast.Is)):
                l, c = n.test.left, n.test.comparators[0]
                if isinstance(l, ast.Attribute) and isinstance(c, ast.Attribute):
                    l, c = (c, l) if norm(l).startswith(enum + ".") else (l, c)
                    if norm(l) in (f"self.{field}", f"self._{field}") and isinstance(c.value, ast.Name) and c.value.id == enum:
                        out.setdefault(c.attr, (n.body, fn))
    return out


def _is_pick(st, idx):
    """`V = V[idx]`"""
    return (isinstance(st, ast.Assign) and len(st.targets) == 1 and isinstance(st.targets[0], ast.Name) and isinstance(st.value, ast.Subscript)
            and isinstance(st.value.value, ast.Name) and st.value.value.id == st.targets[0].id and norm(st.value.slice) == str(idx))


def rule_enum(ctx):
    from .astutil import modifier_effect
    prog = ctx.prog
    r = RuleResult("R-ENUM", floor=8)
    dp = prog.cls("datapath.DataPath")
    oracle_datum = {"DTYPE": "type(_v0)", "LENGTH": "len(_v0)", "MAP_KEYS": "list(_v0.keys())", "MAP_VALUES": "list(_v0.values())"}
    dbr = _modifier_branches(prog, "DATUM_TYPE", "DataPathDatumType")
    where = f"{dp.module.relpath}:{dp.node.lineno}"
    for m, want in oracle_datum.items():
        meth = dp.lookup_method(m.lower())
        inst = {"member": f"DataPathDatumType.{m}"}
        r.instances.append(inst)
        eff = modifier_effect(prog, meth) if meth else ("bad", "no such method")
        ok_m = eff == ("ok", "DATUM_TYPE", f"DataPathDatumType.{m}")
        got = None
        body, fn = dbr.get(m, (None, None))
        if body is not None:
            comps = [st.value for st in body if isinstance(st, ast.Assign) and isinstance(st.value, ast.ListComp)]
            if len(comps) == 1:
                got = canon(comps[0]).split(" for ")[0].lstrip("[")
        inst["method"] = list(eff)
        inst["branch"] = got
        if ok_m and got == want:
            r.ok()
        elif body is None and ok_m:
            inst["verdict"] = "undecided: extraction branch not found in get_data or its helpers"
            r.undecided.append(inst)
        else:
            r.fail(Finding("R-ENUM", f"R-ENUM|DataPathDatumType.{m}", f"{fn.file}:{body[0].lineno}" if body else where,
                           f"datum modifier {m}: method `{m.lower()}()` has effect {list(eff)} and its extraction branch computes `{got}`; expected a fresh copy with DATUM_TYPE = DataPathDatumType.{m} and `{want}` of each selected node", []))
    mb = _modifier_branches(prog, "MULTI_TYPE", "DataPathMultiType")
    for m in ("FIRST", "LAST", "SINGLE", "ALL"):
        meth = dp.lookup_method(m.lower())
        eff = modifier_effect(prog, meth) if meth else ("bad", "no such method")
        body, fn = mb.get(m, (None, None))
        inst = {"member": f"DataPathMultiType.{m}", "method": list(eff), "branch": [norm(s) for s in (body or [])]}
        r.instances.append(inst)
        ok_m = eff == ("ok", "MULTI_TYPE", f"DataPathMultiType.{m}")
        if body is None:
            ok_b = None
        elif m == "SINGLE":
            ok_b = (len(body) == 2 and isinstance(body[0], ast.If) and isinstance(body[0].test, ast.Compare) and canon(body[0].test).startswith("len(") and canon(body[0].test).endswith(") > 1")
                    and any(isinstance(x, ast.Raise) for x in body[0].body) and not body[0].orelse and _is_pick(body[1], 0))
        elif m == "ALL":
            ok_b = len(body) == 1 and isinstance(body[0], ast.Pass)
        else:
            ok_b = len(body) == 1 and _is_pick(body[0], 0 if m == "FIRST" else -1)
        if ok_m and ok_b:
            r.ok()
        elif ok_m and ok_b is None:
            inst["verdict"] = "undecided: multiplicity branch not found in get_data or its helpers"
            r.undecided.append(inst)
        else:
            r.fail(Finding("R-ENUM", f"R-ENUM|DataPathMultiType.{m}", f"{fn.file}:{body[0].lineno}" if body else where,
                           f"multiplicity modifier {m}: method has effect {list(eff)}, branch is {inst['branch']}; expected a fresh copy with MULTI_TYPE = DataPathMultiType.{m} and first = data[0], last = data[-1], single = error if several else data[0], all = unchanged", []))
    return r


def _literal_args_of_param(prog, fn: FuncInfo, pname):
    """String literals every call site passes for parameter `pname` of fn, or None if some call
    site passes something else (call sites found by callee name)."""
    names = [p.name for p in fn.params]
    if pname not in names:
        return None
    idx = names.index(pname)
    if fn.cls is not None and fn.kind in ("method", "classmethod"):
        idx -= 1
    lits, sites = [], 0
    for g in prog.all_functions():
        for n in ast.walk(g.node):
            if isinstance(n, ast.Call) and ((isinstance(n.func, ast.Attribute) and n.func.attr == fn.name) or (isinstance(n.func, ast.Name) and n.func.id == fn.name and fn.cls is None)):
                sites += 1
                a = None
                if idx < len(n.args):
                    a = n.args[idx]
                else:
                    a = next((k.value for k in n.keywords if k.arg == pname), None)
                if isinstance(a, ast.Constant) and isinstance(a.value, str):
                    lits.append(a.value)
                elif isinstance(a, ast.Name) and g.name == fn.name and a.id == pname:
                    continue
                else:
                    return None
    return sorted(set(lits)) if sites else None


def rule_writers(ctx):
    """Fields of paths (and the other definition objects) are written only by their own
    constructor, their own property setter, or - for fields that have a validating setter - on
    a fresh shallow copy made in the same function (the modifier idiom)."""
    from .astutil import modifier_effect
    prog = ctx.prog
    r = RuleResult("R-WRITERS", floor=4)
    watched = {"datapath.DataPath": None, "datapath.MapValue": None, "datapath.ListValue": None, "datapath.MapOrListValue": None,
               "rules.Rule": None, "conditions.Condition": None, "conditions.ConditionBinaryOp": None, "conditions.PreparedConditionCallable": None}
    field_owner = {}
    setter_fields = set()
    for cq in watched:
        c = prog.cls(cq)
        for fld in c.all_fields():
            field_owner.setdefault(fld, set()).add(cq)
        for k in c.mro:
            for sname in k.setters:
                setter_fields.add(sname)
                field_owner.setdefault(sname, set()).add(cq)
    for f in prog.all_functions():
        if f.name == "__init__" or f.module.name in ("schema",) and f.cls is not None and f.cls.name in ("ValidatedData", "_TestDataSchema"):
            continue
        fresh = {n.targets[0].id for n in ast.walk(f.node)
                 if isinstance(n, ast.Assign) and len(n.targets) == 1 and isinstance(n.targets[0], ast.Name) and isinstance(n.value, ast.Call)
                 and norm(n.value.func) in ("copy.copy",) and len(n.value.args) == 1 and norm(n.value.args[0]) == "self"}
        rebound = {}
        for n in ast.walk(f.node):
            if isinstance(n, ast.Assign):
                for t in n.targets:
                    if isinstance(t, ast.Name):
                        rebound[t.id] = rebound.get(t.id, 0) + 1
        fresh = {v for v in fresh if rebound.get(v) == 1}
        stores = []   # (receiver expr, field, node)
        for n in ast.walk(f.node):
            tg = []
            if isinstance(n, ast.Assign):
                tg = n.targets
            elif isinstance(n, ast.AugAssign):
                tg = [n.target]
            for t in tg:
                if isinstance(t, ast.Attribute) and t.attr in field_owner:
                    stores.append((t.value, t.attr, n))
            if isinstance(n, ast.Call) and isinstance(n.func, ast.Name) and n.func.id == "setattr" and len(n.args) == 3:
                nm = n.args[1]
                if isinstance(nm, ast.Constant) and isinstance(nm.value, str):
                    names = [nm.value]
                elif isinstance(nm, ast.Name):
                    names = _literal_args_of_param(prog, f, nm.id)
                else:
                    names = None
                if names is None:
                    # unbounded dynamic store: only a problem when the receiver can be a watched object
                    if f.cls is not None and f.cls.qualname in watched:
                        stores.append((n.args[0], "<dynamic>", n))
                    continue
                for fld in names:
                    if fld in field_owner:
                        stores.append((n.args[0], fld, n))
        for rv, fld, n in stores:
            recv = ast.unparse(rv)
            owner = field_owner.get(fld, set(watched))
            # RuleTest / FilteredData etc. share field names (`condition`, `path`...): only flag receivers that are not `self` of an unrelated class
            if isinstance(rv, ast.Name) and rv.id == "self" and f.cls is not None:
                if not any(f.cls.qualname == o or prog.cls(o) in f.cls.mro for o in owner):
                    continue
            inst = {"site": f"{f.qualname}: {norm(n)}", "field": fld}
            r.instances.append(inst)
            ok = False
            if f.kind == "setter" and recv == "self":
                ok = True
            elif isinstance(rv, ast.Name) and rv.id in fresh and fld in setter_fields and f.cls is not None and f.cls.qualname in watched:
                ok = True
            elif f.cls is not None and f.cls.qualname in ("rules.RuleTest",) and recv == "self":
                ok = True
            if ok:
                inst["verdict"] = "own setter / fresh modifier copy through a validating setter / construction"
                r.ok()
            else:
                r.fail(Finding("R-WRITERS", f"R-WRITERS|{f.qualname}|{norm(n)}", f"{f.file}:{n.lineno}",
                               f"`{norm(n)}` in {f.qualname} writes field `{fld}` of a {'/'.join(sorted(o.split('.')[-1] for o in owner))} outside its constructor: "
                               f"derived state (e.g. is_concrete for parts) is not recomputed and a shared object may be altered", []))
    # the MULTI_TYPE setter refuses concrete paths
    dp = prog.cls("datapath.DataPath")
    st = dp.lookup_setter("MULTI_TYPE")
    inst = {"setter": "DataPath.MULTI_TYPE"}
    r.instances.append(inst)
    ok = False
    if st is not None:
        def refusal(t):
            if not (isinstance(t, ast.BoolOp) and isinstance(t.op, ast.And) and len(t.values) == 2):
                return False
            txt = sorted(norm(v) for v in t.values)
            return "self.is_concrete" in txt and any(isinstance(v, ast.Attribute) and v.attr == "value" and isinstance(v.value, ast.Name) for v in t.values)
        for n in ast.walk(st.node):
            if isinstance(n, ast.If) and refusal(n.test) and any(isinstance(x, ast.Raise) for x in n.body):
                stores = [x for x in ast.walk(st.node) if isinstance(x, ast.Assign) and isinstance(x.targets[0], ast.Attribute) and x.targets[0].attr == "_MULTI_TYPE"]
                guard = canon(n.test)
                ok = bool(stores) and all(f"not ({guard})" in facts_at(prog, st, x, canon) or f"not {guard}" in facts_at(prog, st, x, canon) for x in stores)
    if ok:
        r.ok()
    else:
        r.fail(Finding("R-WRITERS", "R-WRITERS|datapath.DataPath.MULTI_TYPE.setter", f"{dp.module.relpath}:{dp.node.lineno}",
                       "the MULTI_TYPE setter must raise for a concrete path with a multiplicity modifier and store `_MULTI_TYPE` only otherwise", []))
    # every zero-argument method that copies self is a modifier: one enum-valued store on the fresh copy, which is returned
    for nm, m in sorted(dp.methods.items()):
        if m.kind != "method" or len(m.params) != 1 or nm.startswith("__"):
            continue
        ff = prog.flat(m.qualname)
        if not any(isinstance(x, ast.Call) and norm(x.func) == "copy.copy" for x in ast.walk(ff.node)):
            continue
        eff = modifier_effect(prog, m)
        inst = {"modifier": nm, "effect": list(eff)}
        r.instances.append(inst)
        if eff[0] == "ok" and eff[1] in setter_fields and eff[2].split(".")[-1] == nm.upper():
            r.ok()
        else:
            r.fail(Finding("R-WRITERS", f"R-WRITERS|datapath.DataPath.{nm}", f"{m.file}:{m.node.lineno}",
                           f"modifier `{nm}()` must return a fresh shallow copy with exactly one field set through its validating setter, to the enum member {nm.upper()} (effect: {list(eff)})", []))
    return r


# ------------------------------------------------------------------------------------------
# C05
# ------------------------------------------------------------------------------------------
def _assigned_from(func, pred):
    """[(target name, Assign)] for assignments whose value satisfies pred."""
    out = []
    for n in ast.walk(func.node):
        if isinstance(n, ast.Assign) and len(n.targets) == 1 and pred(n.value):
            out.append((norm(n.targets[0]), n))
    return out


def rule_collect(ctx):
    """Collection discipline of RuleTest._test.  Each clause has recognised good forms, known
    bad forms (violations) and is otherwise undecided."""
    prog = ctx.prog
    r = RuleResult("R-COLLECT", floor=6)
    f = prog.flat("rules.RuleTest.__init__")
    if not any(isinstance(n, ast.Call) and isinstance(n.func, ast.Attribute) and n.func.attr == "get_data" for n in ast.walk(f.node)):
        # the collecting method could not be inlined into the constructor: analyse it where it is
        for m in prog.cls("rules.RuleTest").methods.values():
            if any(isinstance(n, ast.Call) and isinstance(n.func, ast.Attribute) and n.func.attr == "get_data" for n in ast.walk(m.node)):
                f = prog.flat(m.qualname)
                break
    where = f"{f.file}:{f.node.lineno}"
    canon_l = lambda e: canon(inline_any(prog, f, e))

    # (a) selection with paths on the test's own document
    sel = _assigned_from(f, lambda v: isinstance(v, ast.Call) and isinstance(v.func, ast.Attribute) and v.func.attr == "get_data")
    inst = {"selection": [norm(a) for _, a in sel]}
    r.instances.append(inst)
    if not sel:
        r.undecided.append(inst)
        return r
    SEL, sel_as = sel[0]
    call = sel_as.value
    kws = {k.arg: norm(k.value) for k in call.keywords}
    if norm(expand_aliases(f, call.func.value)) == "self.rule.path" and [norm(expand_aliases(f, a)) for a in call.args] == ["self.data"] and kws.get("return_paths") == "True":
        r.ok()
    else:
        r.fail(Finding("R-COLLECT", "R-COLLECT|rules.RuleTest._test|selection", f"{f.file}:{sel_as.lineno}",
                       f"`{norm(sel_as)}`: the rule's nodes must be selected with `self.rule.path.get_data(self.data, return_paths=True)` (own document, with concrete paths)", []))
    # (b) R-EXISTS
    ex = _assigned_from(f, lambda v: isinstance(v, (ast.Compare, ast.BoolOp, ast.UnaryOp, ast.Call)) and SEL in {n.id for n in ast.walk(v) if isinstance(n, ast.Name)} and not (isinstance(v, ast.Call) and getattr(v.func, "attr", "") == "filter"))
    inst = {"path exists": [norm(a) for _, a in ex]}
    r.instances.append(inst)
    EX = None
    if ex:
        EX, ex_as = ex[0]
        c = canon(ex_as.value, {SEL: "S"})
        good = {"S not in [None, []]", "S not in (None, [])", "S is not None and S != []", "not (S is None or S == [])", "not S in [None, []]", "S != [] and S is not None"}
        bad = {"S is not None", "S != []", "not not S", "S != None", "S not in [None]", "S not in [[]]", "True"}
        if c in good:
            r.ok()
        elif c in bad:
            r.fail(Finding("R-EXISTS", "R-EXISTS|rules.RuleTest._test", f"{f.file}:{ex_as.lineno}",
                           f"`{norm(ex_as)}`: the path exists iff the selection is neither None (concrete path, absent) nor empty (non-concrete path, no match)", []))
        else:
            r.undecided.append(inst)
    else:
        r.undecided.append(inst)
    # (c) filter call under the path-exists guard
    filt = [n for n in ast.walk(f.node) if isinstance(n, ast.Call) and isinstance(n.func, ast.Attribute) and n.func.attr == "filter" and "condition" in norm(n.func.value)]
    inst = {"filter call": [norm(x) for x in filt]}
    r.instances.append(inst)
    FD = None
    if len(filt) == 1:
        fc = filt[0]
        kws = {k.arg: norm(k.value) for k in fc.keywords}
        args = [norm(a) for a in fc.args]
        problems = []
        if norm(expand_aliases(f, fc.func.value)) != "self.rule.condition":
            problems.append("the rule's own condition must filter")
        if len(args) != 1 or not isinstance(fc.args[0], ast.Name):
            problems.append("the selection must be filtered")
        if kws.get("data_has_paths") != "True":
            problems.append("data_has_paths=True is required (the selection carries concrete paths)")
        if "source_data" not in kws or norm(expand_aliases(f, next(k.value for k in fc.keywords if k.arg == "source_data"))) != "self.data":
            problems.append("source_data=self.data is required (path arguments are resolved against the validated document)")
        facts = facts_at(prog, f, fc, canon)
        if EX and EX not in facts:
            problems.append(f"the call must be guarded by `{EX}`")
        if problems:
            r.fail(Finding("R-COLLECT", "R-COLLECT|rules.RuleTest._test|filter", f"{f.file}:{fc.lineno}", f"`{norm(fc)[:120]}`: " + "; ".join(problems), []))
        else:
            r.ok()
        stf = stmt_of(fc)
        if isinstance(stf, ast.Assign) and isinstance(stf.targets[0], ast.Name):
            FD = stf.targets[0].id
    else:
        r.undecided.append(inst)
    # live assignments: the last assignment to a field on some path through the (flattened) constructor
    def paths(stmts):
        if not stmts:
            yield [], False
            return
        first, rest = stmts[0], stmts[1:]
        if isinstance(first, ast.If):
            for br in (first.body, first.orelse):
                for p, ended in paths(br):
                    if ended:
                        yield p, True
                    else:
                        for q, e2 in paths(rest):
                            yield p + q, e2
        elif isinstance(first, (ast.Return, ast.Raise)):
            yield [first], True
        elif isinstance(first, (ast.For, ast.While, ast.Try, ast.With)):
            inner = [x for x in ast.walk(first) if isinstance(x, ast.Assign)]
            for q, e2 in paths(rest):
                yield inner + q, e2
        else:
            for q, e2 in paths(rest):
                yield [first] + q, e2

    def live_assignments(target):
        out = []
        for p, ended in paths(f.node.body):
            if p and isinstance(p[-1], ast.Raise):
                continue
            asg = [x for x in p if isinstance(x, ast.Assign) and norm(x.targets[0]) == target]
            if asg and not any(asg[-1] is y for y in out):
                out.append(asg[-1])
            elif not asg and None not in out:
                out.append(None)
        return out
    # (d) verdict
    valid_as = [n for n in live_assignments("self._is_valid") if n is not None]
    inst = {"verdict assignments": [f"{norm(a)} under {sorted(facts_at(prog, f, a, canon))}" for a in valid_as]}
    r.instances.append(inst)
    if FD and valid_as:
        allx = f"all({FD}.result)"
        ok, bad, und = True, None, False
        for a in valid_as:
            facts = facts_at(prog, f, a, canon)
            v = canon(a.value)
            if v == allx:
                continue
            if v == "True":
                if allx in facts or (EX and f"not {EX}" in facts):
                    continue
                ok, bad = False, a
            elif v == "False":
                if f"not {allx}" in facts:
                    continue
                ok, bad = False, a
            elif v.startswith("any(") or v.startswith(f"all({FD}.result[") or "[0]" in v:
                ok, bad = False, a
            else:
                und = True
        if not ok:
            r.fail(Finding("R-COLLECT", "R-COLLECT|rules.RuleTest._test|verdict", f"{f.file}:{bad.lineno}",
                           f"`{norm(bad)}`: the rule is valid iff every selected node satisfies the condition (all of {FD}.result), or the path selects nothing", []))
        elif und:
            r.undecided.append(inst)
        else:
            r.ok()
    else:
        r.undecided.append(inst)
    # (e) failures: every failing item and only failing items
    inst = {"failure collection": None}
    r.instances.append(inst)
    decided = False
    if FD:
        loops = [n for n in ast.walk(f.node) if isinstance(n, ast.For) and norm(n.iter) == FD]
        comps = [n for n in ast.walk(f.node) if isinstance(n, (ast.ListComp, ast.GeneratorExp)) and len(n.generators) == 1 and norm(n.generators[0].iter) == FD]
        if loops:
            lp = loops[0]
            item = _target_names(lp.target)[-1]
            lists = {n.func.value.id for n in ast.walk(lp) if isinstance(n, ast.Call) and isinstance(n.func, ast.Attribute) and n.func.attr == "append" and isinstance(n.func.value, ast.Name)}
            if len(lists) == 1:
                lst = next(iter(lists))
                lo, hi, jumps = count_appends(lp.body, lst, loop_body=True)
                app = next(n for n in ast.walk(lp) if isinstance(n, ast.Call) and isinstance(n.func, ast.Attribute) and n.func.attr == "append")
                guards = facts_at(prog, f, app, canon) - facts_at(prog, f, lp, canon)
                inst["failure collection"] = {"loop": head(lp), "guards on the item": sorted(guards), "appends per item": [lo, hi], "jumps": [head(x) for x in jumps]}
                decided = True
                if guards == {f"not {item}.result"} and (lo, hi) == (0, 1) and not jumps:
                    r.ok()
                else:
                    r.fail(Finding("R-COLLECT", "R-COLLECT|rules.RuleTest._test|append", f"{f.file}:{lp.lineno}",
                                   f"an item of {FD} must be recorded exactly when `not {item}.result` (guards on the item: {sorted(guards)}, appends per item {lo}..{hi}, jumps {[head(x) for x in jumps]})", []))
        elif comps:
            cp = comps[0]
            item = _target_names(cp.generators[0].target)[-1]
            ifs = {canon(x) for x in cp.generators[0].ifs}
            inst["failure collection"] = {"comprehension": norm(cp)[:100], "filter": sorted(ifs)}
            decided = True
            if ifs == {f"not {item}.result"}:
                r.ok()
            else:
                r.fail(Finding("R-COLLECT", "R-COLLECT|rules.RuleTest._test|append", f"{f.file}:{cp.lineno}",
                               f"failures must be exactly the items of {FD} with `not {item}.result` (comprehension filter: {sorted(ifs)})", []))
    if not decided:
        r.undecided.append(inst)
    # (f) publication and count
    pub = [n for n in ast.walk(f.node) if isinstance(n, ast.Assign) and norm(n.targets[0]) == "self._failures"]
    inst = {"failures published": [norm(x) for x in pub]}
    r.instances.append(inst)
    live = live_assignments("self._failures")
    is_tuple = lambda v: (isinstance(v, ast.Call) and norm(v.func) == "tuple") or (isinstance(v, ast.Tuple) and not v.elts)
    inst["live"] = [norm(x) if x is not None else "<no assignment on some path>" for x in live]
    if live and all(x is not None and is_tuple(x.value) for x in live):
        r.ok()
    elif live and any(x is not None and isinstance(x.value, ast.Constant) for x in live):
        r.fail(Finding("R-COLLECT", "R-COLLECT|rules.RuleTest._test|publish", where, "the collected failures must be published as `self._failures = tuple(<failures>)` on every path", []))
    else:
        r.undecided.append(inst)
    rt = prog.cls("rules.RuleTest")
    nf = rt.lookup_method("num_failures")
    rv = single_return(nf) if nf else None
    inst = {"num_failures": norm(rv) if rv is not None else None}
    r.instances.append(inst)
    if rv is not None and norm(rv) in ("len(self.failures)", "len(self._failures)"):
        r.ok()
    elif rv is not None and isinstance(rv, ast.Call) and norm(rv.func) == "len":
        r.fail(Finding("R-COLLECT", "R-COLLECT|rules.RuleTest.num_failures", where, f"the failure count must be the length of the failure list (found `{norm(rv)}`)", []))
    else:
        r.undecided.append(inst)
    # the collecting code runs exactly once per rule test, from the constructor: whichever private
    # method holds the selection (`get_data(.., return_paths=True)`) is called from __init__ only
    holder = next((m for m in prog.cls("rules.RuleTest").methods.values()
                   if any(isinstance(n, ast.Call) and isinstance(n.func, ast.Attribute) and n.func.attr == "get_data" for n in ast.walk(m.node))), None)
    hname = holder.name if holder is not None else "__init__"
    callers = [g.qualname for g in prog.all_functions() for n in ast.walk(g.node) if isinstance(n, ast.Call) and isinstance(n.func, ast.Attribute) and n.func.attr == hname and hname != "__init__"]
    inst = {"collector": hname, "callers": callers}
    r.instances.append(inst)
    if callers == ["rules.RuleTest.__init__"] or hname == "__init__":
        r.ok()
    else:
        r.fail(Finding("R-DEFATTR", "R-DEFATTR|rules.RuleTest._test|callers", where, f"_test must run exactly once per rule test, from RuleTest.__init__ (callers: {callers})", []))
    # (g) Rule.test judges a fresh RuleTest on the (possibly cast) copy
    rule_test = prog.flat("rules.Rule.test")
    rets = [x.value for x in _returns(rule_test) if x.value is not None]
    inst = {"Rule.test returns": [norm(x) for x in rets]}
    r.instances.append(inst)
    ctor = [x for x in rets if isinstance(x, ast.Call) and norm(x.func) == "RuleTest"]
    if rets and len(ctor) == len(rets):
        # the document argument must be the copy variable (the one set_datum writes into), not the original parameter
        sd = [n for n in ast.walk(rule_test.node) if isinstance(n, ast.Call) and norm(n.func) == "set_datum" and n.args]
        copyvar = norm(sd[0].args[0]) if sd else None
        def judged_ok(x):
            if len(x.args) != 2 or norm(x.args[0]) != "self":
                return False
            if norm(x.args[1]) == copyvar:
                return True
            # without casts nothing is written: judging the input document itself is the same thing
            return "not self.cast" in facts_at(prog, rule_test, x, canon) and isinstance(x.args[1], ast.Name)
        if copyvar and all(judged_ok(x) for x in ctor):
            r.ok()
        elif copyvar:
            r.fail(Finding("R-COLLECT", "R-COLLECT|rules.Rule.test|return", f"{rule_test.file}:{ctor[0].lineno}",
                           f"Rule.test must judge the copy that received the casts (`RuleTest(self, {copyvar})`); found {[norm(x) for x in ctor]}", []))
        else:
            r.undecided.append(inst)
    elif rets:
        r.fail(Finding("R-COLLECT", "R-COLLECT|rules.Rule.test|return", f"{rule_test.file}:{rule_test.node.lineno}",
                       f"Rule.test must return a fresh `RuleTest(...)` on every path (found {[norm(x) for x in rets]}): a remembered result is not the verdict on this document", []))
    else:
        r.undecided.append(inst)
    return r


def rule_record(ctx):
    prog = ctx.prog
    r = RuleResult("R-RECORD", floor=3)
    rt = prog.cls("rules.RuleTest")
    call, host = None, None
    for m in rt.methods.values():
        for n in ast.walk(m.node):
            if isinstance(n, ast.Call) and isinstance(n.func, ast.Name) and n.func.id == "RuleTestFailureItem":
                call, host = n, m
    inst = {"failure record": norm(call)[:160] if call else None}
    r.instances.append(inst)
    init = prog.flat("rules.RuleTestFailureItem.__init__")
    names = [p.name for p in init.params[1:]]
    if call is None:
        r.undecided.append(inst)
    else:
        got = {k.arg: k.value for k in call.keywords}
        for i, a in enumerate(call.args):
            got[names[i]] = a
        # the item variable: the name whose attributes feed index / value / path
        items = {n.value.id for v in got.values() for n in ast.walk(v) if isinstance(n, ast.Attribute) and isinstance(n.value, ast.Name) and n.value.id != "self"}
        if len(items) == 1:
            it = next(iter(items))
            gotc = {k: canon(v, {it: "ITEM"}) for k, v in got.items()}
            want = {"rule_test": "self", "index": "ITEM.index", "value": "ITEM.source", "path": "ITEM.concrete_path", "reasons": "ITEM.get_failure()"}
            inst["fields"] = gotc
            if gotc == want:
                r.ok()
            else:
                bad = {k: (gotc.get(k), v) for k, v in want.items() if gotc.get(k) != v}
                r.fail(Finding("R-RECORD", "R-RECORD|rules.RuleTest|RuleTestFailureItem", f"{host.file}:{call.lineno}",
                               f"the failure record must carry the item's own index, value (source), concrete path and reasons: {bad}", []))
        else:
            r.undecided.append(inst)
    stores = {norm(s) for s in init.node.body}
    inst = {"RuleTestFailureItem.__init__": sorted(stores)}
    r.instances.append(inst)
    if {f"self.{n} = {n}" for n in names} <= stores:
        r.ok()
    else:
        swapped = [x for x in stores if x.startswith("self.") and " = " in x and x.split(" = ")[1] in names and x.split(" = ")[0] != "self." + x.split(" = ")[1]]
        if swapped:
            r.fail(Finding("R-RECORD", "R-RECORD|rules.RuleTestFailureItem.__init__", f"{init.file}:{init.node.lineno}", f"every parameter must be stored in the field of the same name (found {swapped})", []))
        else:
            r.undecided.append(inst)
    # R-INDEX
    it = prog.flat("data.FilteredDataItem.__init__")
    reads = {}
    for s_ in it.node.body:
        if isinstance(s_, ast.Assign) and isinstance(s_.value, ast.Subscript):
            reads[norm(s_.targets[0])] = s_.value
    inst = {"FilteredDataItem fields": {k: norm(v) for k, v in reads.items()}}
    r.instances.append(inst)
    need = {"self.source": "source", "self.result": "result", "self.concrete_path": "concrete_paths"}
    if set(need) <= set(reads):
        idxs = {norm(v.slice) for k, v in reads.items() if k in need}
        bases = {norm(v.value.value) for k, v in reads.items() if k in need and isinstance(v.value, ast.Attribute)}
        attrs_ok = all(isinstance(reads[k].value, ast.Attribute) and reads[k].value.attr == a for k, a in need.items())
        if len(idxs) == 1 and len(bases) == 1 and attrs_ok:
            r.ok()
        else:
            r.fail(Finding("R-INDEX", "R-INDEX|data.FilteredDataItem.__init__", f"{it.file}:{it.node.lineno}",
                           f"value, result and concrete path of an item must be read from the same filtered object at the same index: {inst['FilteredDataItem fields']}", []))
    else:
        r.undecided.append(inst)
    return r


def child_flags(prog, b):
    """Flags handed to the two children of a combination for data_has_paths True / False, by
    finite evaluation of the statements that compute them."""
    from ..finite import run_block
    calls = [n for n in ast.walk(b.node) if isinstance(n, ast.Call) and isinstance(n.func, ast.Attribute) and n.func.attr == filter_hook_name(prog) and len(n.args) >= 2]
    if not calls:
        return {"undecided": True}
    a1 = calls[0].args[1]
    if not (isinstance(a1, ast.Subscript) and isinstance(a1.value, ast.Name)):
        return {"undecided": True}
    flagvar = a1.value.id
    pre = []
    for st in b.node.body:
        if any(n is calls[0] for n in ast.walk(st)):
            break
        if isinstance(st, ast.Expr) and isinstance(st.value, ast.Constant):
            continue
        if isinstance(st, (ast.Assign, ast.If)) and flagvar in ast.unparse(st):
            pre.append(st)
    out = {}
    for val in (True, False):
        ev = ConstEval(prog, b.module, {"data_has_paths": val})
        try:
            run_block(ev, pre)
            v = ev.env.get(flagvar)
            out[val] = list(v) if isinstance(v, (list, tuple)) else None
        except Undecidable:
            return {"undecided": True}
    return out


def rule_flag(ctx):
    prog = ctx.prog
    r = RuleResult("R-FLAG", floor=3)
    f = filter_impl(prog, "conditions.Condition")
    ok = False
    for n in ast.walk(f.node):
        if isinstance(n, ast.If) and norm(n.test) == "data_has_paths" and [norm(s) for s in n.body] in (["(datum, _) = datum"], ["datum, _ = datum"]):
            ok = isinstance(n._parent, ast.For) and n._parent.body[0] is n
    r.instances.append({"site": "Condition._filter path split", "ok": ok})
    if ok:
        r.ok()
    else:
        r.fail(Finding("R-FLAG", "R-FLAG|conditions.Condition._filter", f"{f.file}:{f.node.lineno}", "`if data_has_paths: datum, _ = datum` must be the first statement of the item loop", []))
    g = prog.flat("data.FilteredData.__init__")
    ok = any(isinstance(n, ast.If) and norm(n.test) == "data_has_paths" and [norm(s) for s in n.body] == ["self.concrete_paths = self.source.extract_paths()"] for n in ast.walk(g.node))
    r.instances.append({"site": "FilteredData.__init__ path extraction", "ok": ok})
    if ok:
        r.ok()
    else:
        r.fail(Finding("R-FLAG", "R-FLAG|data.FilteredData.__init__", f"{g.file}:{g.node.lineno}", "paths must be split off (`self.source.extract_paths()`) exactly under `data_has_paths`", []))
    b = filter_impl(prog, "conditions.ConditionBinaryOp")
    flags = child_flags(prog, b)
    r.instances.append({"site": "ConditionBinaryOp._filter flags", "data_has_paths=True": flags.get(True), "data_has_paths=False": flags.get(False)})
    if flags.get("undecided"):
        r.undecided.append({"site": "ConditionBinaryOp._filter flags"})
    elif flags.get(True) == [True, False] and flags.get(False) == [False, False]:
        r.ok()
    else:
        r.fail(Finding("R-FLAG", "R-FLAG|conditions.ConditionBinaryOp._filter", f"{b.file}:{b.node.lineno}",
                       f"only the first child may receive data_has_paths (the first leaf that filters splits the paths off); children receive {flags.get(True)} / {flags.get(False)}", []))
    ep = prog.flat("data.Data.extract_paths")
    body = [norm(s) for s in ep.node.body]
    r.instances.append({"site": "Data.extract_paths", "stmts": body})
    if body in (["(values, concrete_paths) = list(zip(*self.values()))", "self._values = list(values)", "return concrete_paths"], ["values, concrete_paths = list(zip(*self.values()))", "self._values = list(values)", "return concrete_paths"]):
        r.ok()
    else:
        r.undecided.append({"site": "Data.extract_paths"})
    return r


# ------------------------------------------------------------------------------------------
# C06
# ------------------------------------------------------------------------------------------
def rule_fold(ctx):
    prog = ctx.prog
    r = RuleResult("R-FOLD", floor=5)
    vd = prog.cls("schema.ValidatedData")
    want = {"is_valid": ("all", "is_valid"), "num_rules_tested": ("sum", "tested"), "num_failures": ("sum", "num_failures")}
    for name, (red, attr) in want.items():
        m = vd.lookup_method(name)
        rv = single_return(m) if m else None
        inst = {"aggregate": name, "expr": norm(rv) if rv is not None else None}
        r.instances.append(inst)
        where = f"{vd.module.relpath}:{m.node.lineno if m else vd.node.lineno}"
        if rv is None or not isinstance(rv, ast.Call) or not isinstance(rv.func, ast.Name):
            r.undecided.append(inst)
            continue
        if rv.func.id in ("all", "any", "sum", "min", "max") and len(rv.args) == 1 and isinstance(rv.args[0], (ast.GeneratorExp, ast.ListComp)):
            g = rv.args[0]
            gen = g.generators[0]
            ok = (rv.func.id == red and len(g.generators) == 1 and not gen.ifs and norm(gen.iter) == "self.rule_tests"
                  and isinstance(gen.target, ast.Name) and isinstance(g.elt, ast.Attribute) and isinstance(g.elt.value, ast.Name) and g.elt.value.id == gen.target.id and g.elt.attr == attr)
            if ok:
                r.ok()
            else:
                r.fail(Finding("R-FOLD", f"R-FOLD|schema.ValidatedData.{name}", where,
                               f"{name} is `{norm(rv)}`; it must be `{red}(i.{attr} for i in self.rule_tests)` over all rule tests, unfiltered", []))
        elif rv.func.id == "len" and len(rv.args) == 1:
            # a count obtained as the length of a collection: a de-duplicating collection undercounts
            src = rv.args[0]
            expr = src
            if isinstance(src, ast.Attribute) and isinstance(src.value, ast.Name) and src.value.id == "self":
                p = vd.lookup_method(src.attr)
                if p is not None and p.kind == "property":
                    expr = single_return(p) or src
            if isinstance(expr, (ast.DictComp, ast.SetComp, ast.Dict, ast.Set)) or (isinstance(expr, ast.Call) and isinstance(expr.func, ast.Name) and expr.func.id in ("set", "dict", "frozenset")):
                r.fail(Finding("R-FOLD", f"R-FOLD|schema.ValidatedData.{name}", where,
                               f"{name} is `{norm(rv)}` where `{norm(src)}` is a de-duplicating collection (`{norm(expr)[:80]}`): failures of different rules that share a key collapse, so the count is no longer the sum of the rules' counts", []))
            else:
                r.undecided.append(inst)
        else:
            r.undecided.append(inst)
    # one rule test per rule over the same document and the same copy
    init = prog.flat("schema.ValidatedData.__init__")
    rt = None
    for s_ in init.node.body:
        if isinstance(s_, ast.Assign) and norm(s_.targets[0]) == "self.rule_tests":
            rt = s_.value
    inst = {"rule_tests": norm(rt) if rt is not None else None}
    r.instances.append(inst)
    gen = None
    if isinstance(rt, ast.Call) and norm(rt.func) in ("tuple", "list") and len(rt.args) == 1:
        a = rt.args[0]
        if isinstance(a, (ast.GeneratorExp, ast.ListComp)):
            gen = ("comp", a)
        elif isinstance(a, ast.Name):
            lp = next((n for n in init.node.body if isinstance(n, ast.For) and any(isinstance(x, ast.Call) and isinstance(x.func, ast.Attribute) and x.func.attr == "append" and norm(x.func.value) == a.id for x in ast.walk(n))), None)
            if lp is not None:
                gen = ("loop", lp, a.id)
    elif isinstance(rt, (ast.ListComp,)):
        gen = ("comp", rt)
    def test_call_ok(callnode, var):
        return (isinstance(callnode, ast.Call) and isinstance(callnode.func, ast.Attribute) and callnode.func.attr == "test" and norm(callnode.func.value) == var
                and [norm(x) for x in callnode.args] == ["self.data"] and {k.arg: norm(k.value) for k in callnode.keywords} == {"_data_copy": copyvar})
    copyvar = next((norm(x.targets[0]) for x in init.node.body if isinstance(x, ast.Assign) and isinstance(x.value, ast.Call) and norm(x.value.func) == "copy.deepcopy"), None)
    if gen is None or copyvar is None:
        r.undecided.append(inst)
    elif gen[0] == "comp":
        g = gen[1]
        gg = g.generators[0]
        var = _target_names(gg.target)[-1] if _target_names(gg.target) else "?"
        if len(g.generators) == 1 and not gg.ifs and norm(gg.iter) == "self.schema.rules" and test_call_ok(g.elt, var):
            r.ok()
        else:
            r.fail(Finding("R-FOLD", "R-FOLD|schema.ValidatedData.__init__|rule_tests", f"{init.file}:{init.node.lineno}",
                           f"rule_tests is `{canon(rt)[:140]}`; every rule of the schema must be tested once on the same document (self.data) and the same cast copy ({copyvar})", []))
    else:
        _, lp, lst = gen
        var = _target_names(lp.target)[-1]
        lo, hi, jumps = count_appends(lp.body, lst, loop_body=True)
        app = next(x for x in ast.walk(lp) if isinstance(x, ast.Call) and isinstance(x.func, ast.Attribute) and x.func.attr == "append" and norm(x.func.value) == lst)
        if norm(lp.iter) == "self.schema.rules" and (lo, hi) == (1, 1) and not jumps and app.args and test_call_ok(app.args[0], var):
            r.ok()
        else:
            r.fail(Finding("R-FOLD", "R-FOLD|schema.ValidatedData.__init__|rule_tests", f"{init.file}:{lp.lineno}",
                           f"every rule of the schema must be tested exactly once on self.data and {copyvar} (loop `{head(lp)}`, appends per rule {lo}..{hi})", []))
    v = prog.flat("schema.Schema.validate")
    rets = [x.value for x in _returns(v) if x.value is not None]
    inst = {"Schema.validate returns": [norm(x) for x in rets]}
    r.instances.append(inst)
    if rets and all(isinstance(x, ast.Call) and norm(x.func) == "ValidatedData" and x.args and norm(x.args[0]) == "self" for x in rets):
        r.ok()
    elif rets:
        r.fail(Finding("R-FOLD", "R-FOLD|schema.Schema.validate|return", f"{v.file}:{v.node.lineno}",
                       f"Schema.validate must build a fresh `ValidatedData(self, ...)` on every call (found {[norm(x) for x in rets]}): a remembered result is not the verdict on this document", []))
    else:
        r.undecided.append(inst)
    return r


def _key_function_body(prog, func, kexpr):
    """(param name, body expr) of a sort-key callable: a lambda, or a named single-return helper."""
    from .astutil import simple_helper_return
    if isinstance(kexpr, ast.Lambda) and len(kexpr.args.args) == 1:
        return kexpr.args.args[0].arg, kexpr.body
    ent = None
    if isinstance(kexpr, ast.Name):
        ent = prog.resolve_expr(func.module, kexpr)
    elif isinstance(kexpr, ast.Attribute) and isinstance(kexpr.value, ast.Name) and kexpr.value.id in ("self", "cls") and func.cls is not None:
        ent = func.cls.lookup_method(kexpr.attr)
        if ent is not None and ent.kind != "staticmethod":
            ent = None
    elif isinstance(kexpr, ast.Attribute):
        ent = prog.resolve_expr(func.module, kexpr)
    if isinstance(ent, FuncInfo) and len(ent.params) == 1:
        rv = simple_helper_return(ent)
        if rv is not None:
            return ent.params[0].name, inline_any(prog, ent, rv)
    return None


def rule_sort(ctx):
    prog = ctx.prog
    r = RuleResult("R-SORT", floor=2)
    sc = prog.cls("schema.Schema")
    n_sites = 0
    for mname, m in sorted(sc.methods.items()):
        binds = [s for s in ast.walk(m.node) if isinstance(s, ast.Assign) and norm(s.targets[0]) == "self.rules"]
        for s in binds:
            v = s.value
            if not (isinstance(v, ast.Call) and isinstance(v.func, ast.Name) and v.func.id == "sorted") and mname not in ("__init__", "add_schema"):
                continue
            n_sites += 1
            inst = {"site": f"schema.Schema.{mname}: {norm(s)}"}
            r.instances.append(inst)
            shape = (isinstance(v, ast.Call) and isinstance(v.func, ast.Name) and v.func.id == "sorted" and len(v.args) == 1
                     and {k.arg for k in v.keywords} == {"key"})
            src_ok = isinstance(v, ast.Call) and v.args and norm(v.args[0]) in ("rules", "self.rules")
            kb = _key_function_body(prog, m, v.keywords[0].value) if shape else None
            if shape and src_ok and kb is None:
                inst["verdict"] = "undecided: sort key is not a lambda / single-return helper"
                r.undecided.append(inst)
                continue
            ok = shape and kb is not None and canon(kb[1], {kb[0]: "R"}) in ("len(R.path)", "len(R.path.parts)")
            if ok and src_ok:
                r.ok()
            else:
                r.fail(Finding("R-SORT", f"R-SORT|schema.Schema.{mname}", f"{m.file}:{s.lineno}",
                               f"`{norm(s)}`: the rule list must be bound to `sorted(<all rules>, key=lambda i: len(i.path))` (stable, ascending by path length, no reverse)", []))
    if n_sites < 2:
        raise AnalysisError("Schema: bindings of self.rules in __init__ / add_schema not found")
    return r


def _str_typed(expr, strvars):
    if isinstance(expr, ast.Constant):
        return isinstance(expr.value, str)
    if isinstance(expr, ast.JoinedStr):
        return True
    if isinstance(expr, ast.Name):
        return expr.id in strvars
    if isinstance(expr, ast.BinOp) and isinstance(expr.op, (ast.Add, ast.Mod, ast.Mult)):
        return _str_typed(expr.left, strvars) or _str_typed(expr.right, strvars)
    if isinstance(expr, ast.Call):
        if isinstance(expr.func, ast.Name) and expr.func.id in ("str", "repr", "format"):
            return True
        if isinstance(expr.func, ast.Attribute) and expr.func.attr in ("join", "format", "strip", "get_failures_string", "replace", "lower", "upper"):
            return True
    return False


def rule_rettype(ctx):
    prog = ctx.prog
    r = RuleResult("R-RETTYPE", floor=2)
    for q in ("schema.ValidatedData.get_failures_string", "rules.RuleTest.get_failures_string"):
        f = prog.flat(q)
        strvars = set()
        for n in ast.walk(f.node):
            if isinstance(n, ast.Assign) and isinstance(n.targets[0], ast.Name) and _str_typed(n.value, strvars):
                strvars.add(n.targets[0].id)
        for n in ast.walk(f.node):
            if isinstance(n, ast.AugAssign) and isinstance(n.target, ast.Name) and n.target.id in strvars and not _str_typed(n.value, strvars):
                strvars.discard(n.target.id)
        rets = _returns(f)
        falls_off = not isinstance(f.node.body[-1], ast.Return)
        inst = {"function": q, "returns": [norm(x.value) if x.value is not None else "<bare return>" for x in rets], "falls off the end": falls_off}
        r.instances.append(inst)
        bad = [x for x in rets if x.value is None or not _str_typed(x.value, strvars)]
        if bad or falls_off or not rets:
            b = bad[0] if bad else f.node.body[-1]
            r.fail(Finding("R-RETTYPE", f"R-RETTYPE|{q}", f"{f.file}:{b.lineno}",
                           f"{q} must return a str on every path; `{head(b)}` returns {'None' if (not bad or bad[0].value is None) else norm(bad[0].value)}", []))
        else:
            r.ok()
        # loops visit every element without break
        for lp in [n for n in ast.walk(f.node) if isinstance(n, ast.For)]:
            jumps = [n for n in ast.walk(lp) if isinstance(n, (ast.Break, ast.Return))]
            inst = {"loop": head(lp), "jumps": [head(j) for j in jumps]}
            r.instances.append(inst)
            if jumps:
                r.fail(Finding("R-RETTYPE", f"R-RETTYPE|{q}|{head(lp)}", f"{f.file}:{lp.lineno}", f"`{head(lp)}` leaves the loop early: not every failing path is named in the report", []))
            else:
                r.ok()
    return r


# ------------------------------------------------------------------------------------------
# C18
# ------------------------------------------------------------------------------------------
def rule_once_c18(ctx):
    prog = ctx.prog
    r = RuleResult("R-ONCE/C18", floor=2)
    f = prog.flat("schema.Schema.add_schema")
    where = f"{f.file}:{f.node.lineno}"
    loops = [s for s in f.node.body if isinstance(s, ast.For)]
    inst = {"loop": head(loops[0]) if loops else None, "top-level statements": [head(s) for s in f.node.body if not (isinstance(s, ast.Expr) and isinstance(s.value, ast.Constant))]}
    r.instances.append(inst)
    early = [s for s in f.node.body if isinstance(s, (ast.If, ast.Return)) and any(isinstance(n, ast.Return) for n in ast.walk(s))]
    if len(loops) != 1 or norm(loops[0].iter) != "schema.rules" or early:
        r.fail(Finding("R-ONCE/C18", "R-ONCE|schema.Schema.add_schema|loop", where,
                       f"add_schema must add one re-rooted rule for every rule of the added schema on every path (loop over schema.rules: {[head(l) for l in loops]}; early exits: {[head(e) for e in early]})", []))
        return r
    r.ok()
    loop = loops[0]
    appends = [n for n in ast.walk(loop) if isinstance(n, ast.Call) and isinstance(n.func, ast.Attribute) and n.func.attr == "append" and norm(n.func.value) == "self.rules"]
    jumps = [n for n in ast.walk(loop) if isinstance(n, (ast.Break, ast.Continue, ast.Return))]
    conds = [n for n in loop.body if isinstance(n, (ast.If, ast.Try))]
    inst = {"appends": [norm(a) for a in appends], "jumps": [head(j) for j in jumps]}
    r.instances.append(inst)
    if len(appends) == 1 and not jumps and not conds:
        r.ok()
    else:
        r.fail(Finding("R-ONCE/C18", "R-ONCE|schema.Schema.add_schema|append", f"{f.file}:{loop.lineno}", "exactly one rule must be appended per rule of the added schema, unconditionally", []))
    # the new path is root_path / rule.path
    var = _target_names(loop.target)[-1]
    rootp = f.params[2].name if len(f.params) > 2 else "root_path"
    divs = [n for n in ast.walk(loop) if isinstance(n, ast.BinOp) and isinstance(n.op, ast.Div)]
    good = [n for n in divs if norm(expand_aliases(f, n.left)) == rootp and norm(expand_aliases(f, n.right)) == f"{var}.path"]
    inst = {"re-rooting": [norm(n) for n in divs]}
    r.instances.append(inst)
    # ... and that division, nothing else, is the path the new rule is built with
    built = [n for n in ast.walk(loop) if isinstance(n, ast.Call) and norm(n.func) == "Rule"]
    for b in built:
        pv = next((k.value for k in b.keywords if k.arg == "path"), b.args[0] if b.args else None)
        pv = expand_aliases(f, pv) if pv is not None else None
        if isinstance(pv, ast.Name):
            asg = [a for a in ast.walk(loop) if isinstance(a, ast.Assign) and len(a.targets) == 1 and isinstance(a.targets[0], ast.Name) and a.targets[0].id == pv.id]
            pv = asg[0].value if len(asg) == 1 else pv
        inst2 = {"new rule's path": norm(pv) if pv is not None else None}
        r.instances.append(inst2)
        if pv is not None and isinstance(pv, ast.BinOp) and any(pv is g or norm(pv) == norm(g) for g in good):
            r.ok()
        elif pv is not None and any(isinstance(x, ast.IfExp) for x in ast.walk(pv)):
            r.fail(Finding("R-ONCE/C18", "R-ONCE|schema.Schema.add_schema|path-conditional", f"{f.file}:{b.lineno}",
                           f"`path={norm(pv)[:90]}`: the added rule's path is `{rootp} / {var}.path` only on one arm of a conditional; the other arm does not go through the "
                           f"concatenation, which is what carries the rule path's parts *and* its datum / multiplicity modifier (a root rule `DataPath().length()` would judge the value, not its length)", []))
        else:
            r.undecided.append(inst2)
    if good and len(good) == len(divs):
        r.ok()
    else:
        r.fail(Finding("R-ONCE/C18", "R-ONCE|schema.Schema.add_schema|path", f"{f.file}:{loop.lineno}", "the added rule's path must be `root_path / rule.path` (root on the left)", []))
    # `root / path` keeps what the right operand selects *and* how it reads it: its datum / multiplicity modifier
    dv = prog.cls("datapath.DataPath").lookup_method("__truediv__")
    if dv is None:
        r.undecided.append({"what": "DataPath.__truediv__ not found"})
        return r
    dv = prog.flat(dv.qualname)
    o = dv.params[1].name if len(dv.params) > 1 else "other"
    decided = False
    for n in ast.walk(dv.node):
        if isinstance(n, ast.Return) and isinstance(n.value, ast.Call) and norm(n.value.func) in ("DataPath", "self.__class__", "type(self)"):
            facts = facts_at(prog, dv, n, canon)
            if not any(f"isinstance({o}, DataPath)" in x for x in facts):
                continue
            decided = True
            starred = [norm(a.value) for a in n.value.args if isinstance(a, ast.Starred)]
            kws = {k.arg: norm(k.value) for k in n.value.keywords if k.arg}
            inst = {"path / path builds": norm(n.value)[:120]}
            r.instances.append(inst)
            keeps = all(k in kws and f"{o}." in kws[k] for k in ("datum_type", "multi_type"))
            if f"{o}.parts" in starred and keeps:
                r.ok()
            elif f"{o}.parts" in starred:
                r.fail(Finding("R-ONCE/C18", "R-ONCE|datapath.DataPath.__truediv__|modifiers", f"{dv.file}:{n.lineno}",
                               f"`{norm(n.value)[:100]}` concatenates the parts but drops the right operand's datum / multiplicity modifier: a rule on `DataPath('a').length()` "
                               f"added under a root is re-rooted to a path without `.length()` and judges the value instead of its length", []))
            else:
                r.undecided.append(inst)
    if not decided:
        r.undecided.append({"what": "the DataPath / DataPath branch of __truediv__ is not in the recognised form"})
    return r


# ------------------------------------------------------------------------------------------
# C15
# ------------------------------------------------------------------------------------------
def _looptry_in_helper(prog, f, r):
    """The cast loop lives in a helper that cannot be inlined exactly (e.g. it returns from inside
    the loop).  Decide what is still visible: the helper is called per node, and a failed cast
    does not abandon the node's other casts by raising.  The rest is undecided."""
    for g in helper_closure(prog, prog.func("rules.Rule.test"))[1:]:
        loops = [n for n in ast.walk(g.node) if isinstance(n, ast.For) and "self.cast" in norm(n.iter)]
        if not loops:
            continue
        cast_loop = loops[0]
        r.instances.append({"cast loop": f"{g.qualname}: {head(cast_loop)} (helper not inlinable: partial decision)"})
        calls = [n for n in ast.walk(f.node) if isinstance(n, ast.Call) and isinstance(n.func, ast.Attribute) and n.func.attr == g.name]
        per_node = [c for c in calls if any(isinstance(p, ast.For) and isinstance(p.target, ast.Tuple) and len(p.target.elts) == 2 for p in _parents(c))]
        r.instances.append({"helper calls": [norm(c) for c in calls], "inside a per-node loop": len(per_node)})
        if calls and len(per_node) == len(calls):
            r.ok()
        else:
            r.undecided.append({"what": "helper holding the cast loop is not called from a recognisable per-node loop"})
        names = [t.id for t in ast.walk(cast_loop.target) if isinstance(t, ast.Name)]
        call = next((n for n in ast.walk(cast_loop) if isinstance(n, ast.Call) and isinstance(n.func, ast.Name) and n.func.id in names), None)
        tr = _enclosing(call, ast.Try) if call is not None else None
        if tr is not None and any(p is cast_loop for p in _parents(tr)):
            bad = [n for h in tr.handlers for n in ast.walk(h) if isinstance(n, (ast.Break, ast.Raise))]
            r.instances.append({"handler exits": [head(b) for b in bad]})
            if bad:
                r.fail(Finding("R-LOOPTRY", "R-LOOPTRY|rules.Rule.test|handler", f"{g.file}:{bad[0].lineno}", "a failed cast must leave the node as it is and continue with the other casts / nodes", []))
            else:
                r.ok()
        else:
            r.undecided.append({"what": "try around the cast call not recognised in the helper"})
        r.undecided.append({"what": "source-type guard and write-back of the cast result: split across helpers, not decided by this rule (R-RAISE/C07, R-PURE/C15 and R-ESCAPE/C15 still apply)"})
        return r
    raise AnalysisError("Rule.test: the loop over self.cast not found (neither in Rule.test nor in its private helpers)")


def rule_looptry(ctx):
    prog = ctx.prog
    r = RuleResult("R-LOOPTRY", floor=3)
    f = prog.flat("rules.Rule.test")
    where = f"{f.file}:{f.node.lineno}"
    cast_loops = [n for n in ast.walk(f.node) if isinstance(n, ast.For) and "self.cast" in norm(n.iter)]
    if not cast_loops:
        return _looptry_in_helper(prog, f, r)
    cast_loop = cast_loops[0]
    # the per-node loop: the nearest enclosing loop whose target unpacks (node, path)
    node_loop = next((p for p in _parents(cast_loop) if isinstance(p, ast.For) and isinstance(p.target, ast.Tuple) and len(p.target.elts) == 2), None)
    if node_loop is None:
        r.instances.append({"what": "per-node loop around the cast loop not found"})
        r.fail(Finding("R-LOOPTRY", "R-LOOPTRY|rules.Rule.test|node-loop", f"{f.file}:{cast_loop.lineno}",
                       "the casts must be attempted inside a loop over the selected (node, concrete path) pairs", []))
        return r
    names = [t.id for t in ast.walk(cast_loop.target) if isinstance(t, ast.Name)]
    call = next((n for n in ast.walk(cast_loop) if isinstance(n, ast.Call) and isinstance(n.func, ast.Name) and n.func.id in names), None)
    inst = {"cast call": norm(call) if call else None}
    r.instances.append(inst)
    if call is None:
        raise AnalysisError("Rule.test: the cast call not found")
    tr = _enclosing(call, ast.Try)
    inside = tr is not None and any(p is node_loop for p in _parents(tr))
    if inside:
        r.ok()
    else:
        r.fail(Finding("R-LOOPTRY", "R-LOOPTRY|rules.Rule.test|try-scope", f"{f.file}:{call.lineno}",
                       "the try/except around the cast must lie inside the per-node loop: otherwise the first uncastable node aborts the loop and later castable nodes stay uncast", []))
    if tr is not None:
        bad = [n for h in tr.handlers for n in ast.walk(h) if isinstance(n, (ast.Break, ast.Return, ast.Raise))]
        r.instances.append({"handler exits": [head(b) for b in bad]})
        if bad:
            r.fail(Finding("R-LOOPTRY", "R-LOOPTRY|rules.Rule.test|handler", f"{f.file}:{bad[0].lineno}", "a failed cast must leave the node as it is and continue with the other casts / nodes", []))
        else:
            r.ok()
    # dominated by the isinstance test on the cast's source type; write-back uses the cast result and the node's own path
    nodevar = _target_names(node_loop.target)[0]
    gfacts = facts_at(prog, f, call, canon) - facts_at(prog, f, cast_loop, canon)
    inst = {"guard": sorted(gfacts)}
    r.instances.append(inst)
    if any(g.startswith(f"isinstance({nodevar}, ") and any(g == f"isinstance({nodevar}, {nm})" for nm in names) for g in gfacts):
        r.ok()
    else:
        r.fail(Finding("R-LOOPTRY", "R-LOOPTRY|rules.Rule.test|guard", f"{f.file}:{call.lineno}", f"a cast applies only to a node whose type is the cast's source type (`isinstance({nodevar}, <key>)`)", []))
    sd = next((n for n in ast.walk(node_loop) if isinstance(n, ast.Call) and isinstance(n.func, ast.Name) and n.func.id == "set_datum"), None)
    inst = {"write-back": norm(sd) if sd else None}
    r.instances.append(inst)
    tgt = None
    for p in _parents(call):
        if isinstance(p, ast.Assign):
            tgt = norm(p.targets[0])
            break
    loopvars = [t.id for t in ast.walk(node_loop.target) if isinstance(t, ast.Name)]
    copyvars = {norm(x.args[1]) for x in ast.walk(f.node) if isinstance(x, ast.Call) and norm(x.func) == "RuleTest" and len(x.args) == 2}
    if sd is not None and len(sd.args) == 3 and norm(sd.args[0]) in copyvars and norm(sd.args[2]) == tgt and norm(sd.args[1]) == loopvars[-1] and tgt not in loopvars:
        r.ok()
    else:
        r.fail(Finding("R-LOOPTRY", "R-LOOPTRY|rules.Rule.test|write-back", f"{f.file}:{(sd or call).lineno}",
                       f"the value written back must be the result of the cast (`{tgt}`), into the copy the rule test judges ({sorted(copyvars)}), at the node's own concrete path (`{loopvars[-1] if loopvars else '?'}`)", []))
    return r


# ------------------------------------------------------------------------------------------
# C13
# ------------------------------------------------------------------------------------------
def rule_fields(ctx):
    prog = ctx.prog
    r = RuleResult("R-FIELDS", floor=5)
    w = prog.flat("rules.Rule.to_json_like")
    rd = prog.flat("rules.Rule.from_spec")
    out, out_st = None, None
    for st in w.node.body:
        if isinstance(st, ast.Assign) and isinstance(st.value, ast.Dict):
            out, out_st = st.value, st
    if out is None:
        raise AnalysisError("Rule.to_json_like: returned mapping not found")
    # nothing may drop entries from the mapping after it was built
    if isinstance(out_st.targets[0], ast.Name):
        ov = out_st.targets[0].id
        after = False
        for n in ast.walk(w.node):
            if n is out_st:
                after = True
                continue
            if not after:
                continue
            drops = None
            if isinstance(n, ast.Assign) and any(isinstance(t, ast.Name) and t.id == ov for t in n.targets):
                v = n.value
                if isinstance(v, ast.DictComp) and any(g.ifs for g in v.generators) and any(isinstance(x, ast.Name) and x.id == ov for x in ast.walk(v)):
                    drops = f"`{norm(n)[:100]}` filters the entries of the mapping"
                else:
                    r.undecided.append({"what": f"the mapping is rebound after construction: {norm(n)[:80]}"})
            elif isinstance(n, ast.Call) and isinstance(n.func, ast.Attribute) and isinstance(n.func.value, ast.Name) and n.func.value.id == ov and n.func.attr in ("pop", "popitem", "clear"):
                drops = f"`{norm(n)[:80]}` removes entries from the mapping"
            elif isinstance(n, ast.Delete) and any(isinstance(t, ast.Subscript) and isinstance(t.value, ast.Name) and t.value.id == ov for t in n.targets):
                drops = f"`{norm(n)[:80]}` removes an entry from the mapping"
            if drops:
                r.instances.append({"entries dropped": drops})
                r.fail(Finding("R-FIELDS", "R-FIELDS|rules.Rule.to_json_like|dropped", f"{w.file}:{n.lineno}",
                               f"{drops}: from_spec reads `condition` and `path` unconditionally (and equality depends on `cast`), so a rule whose entry is dropped "
                               f"(null condition -> {{}}, root path -> [], empty cast) cannot be rebuilt / comes back different", []))
    written = {k.value: norm(v) for k, v in zip(out.keys, out.values) if isinstance(k, ast.Constant)}
    read_sub = {n.slice.value for n in ast.walk(rd.node) if isinstance(n, ast.Subscript) and norm(n.value) == "spec" and isinstance(n.slice, ast.Constant)}
    read_get = {n.args[0].value for n in ast.walk(rd.node) if isinstance(n, ast.Call) and isinstance(n.func, ast.Attribute) and n.func.attr == "get" and norm(n.func.value) == "spec" and n.args and isinstance(n.args[0], ast.Constant)}
    inst = {"written": written, "read (mandatory)": sorted(read_sub), "read (optional)": sorted(read_get)}
    r.instances.append(inst)
    where = f"{w.file}:{w.node.lineno}"
    optional_compared = read_get - {"doc"}    # `doc` is documentation only (not compared, not serialised)
    if set(written) <= read_sub | read_get and read_sub <= set(written) and optional_compared <= set(written):
        r.ok()
    else:
        r.fail(Finding("R-FIELDS", "R-FIELDS|rules.Rule.to_json_like|keys", where,
                       f"keys written {sorted(written)} must be read by from_spec (reads {sorted(read_sub | read_get)}) and every mandatory key {sorted(read_sub)} and every optional key that equality depends on {sorted(optional_compared)} must be written", []))
    for k, wantv in (("condition", "self.condition.to_json_like()"), ("path", "self.path.to_json_like()")):
        inst = {"field": k, "emitted": written.get(k)}
        r.instances.append(inst)
        if written.get(k) == wantv:
            r.ok()
        else:
            r.fail(Finding("R-JSONTYPE", f"R-JSONTYPE|rules.Rule.to_json_like|{k}", where, f"`{k}` must be emitted as `{wantv}` (found `{written.get(k)}`): a raw object is not JSON", []))
    inst = {"field": "cast", "emitted": written.get("cast")}
    r.instances.append(inst)
    if written.get("cast") == "self.cast":
        r.fail(Finding("R-JSONTYPE", "R-JSONTYPE|rules.Rule.to_json_like|cast", where,
                       "`cast` is emitted as the raw `self.cast` mapping {type: function}: not JSON and not what from_spec accepts", []))
    else:
        r.ok()
    s = prog.cls("schema.Schema")
    tj, fj = s.lookup_method("to_json_like"), s.lookup_method("from_json_like")
    o = None
    for st in tj.node.body:
        if isinstance(st, ast.Assign) and isinstance(st.value, ast.ListComp):
            o = st.value
    inst = {"Schema.to_json_like": norm(o) if o is not None else None}
    r.instances.append(inst)
    if o is not None and canon(o) == "[_v0.to_json_like() for _v0 in self.rules]":
        r.ok()
    else:
        r.fail(Finding("R-FIELDS", "R-FIELDS|schema.Schema.to_json_like", f"{tj.file}:{tj.node.lineno}", "every rule must be serialised, in order, through Rule.to_json_like", []))
    rv = single_return(fj)
    inst = {"Schema.from_json_like": norm(rv) if rv is not None else None}
    r.instances.append(inst)
    if rv is not None and canon(rv) == "cls(rules=[Rule.from_json_like(_v0) for _v0 in json_like])":
        r.ok()
    else:
        r.fail(Finding("R-FIELDS", "R-FIELDS|schema.Schema.from_json_like", f"{fj.file}:{fj.node.lineno}", "every serialised rule must be rebuilt through Rule.from_json_like", []))
    # every field an __eq__ reads is either serialised or only ever assigned a constant
    for cq, ser_fields in (("schema.Schema", {"rules"}), ("rules.Rule", {"path", "condition", "cast"})):
        c = prog.cls(cq)
        eq = c.lookup_method("__eq__")
        from .eq import compared_fields
        comp = compared_fields(prog, c, eq)
        for fld in sorted(comp - ser_fields):
            stores = [(g, n) for g in prog.all_functions() for n in ast.walk(g.node)
                      if isinstance(n, ast.Assign) and any(isinstance(t, ast.Attribute) and t.attr == fld and (g.cls is c or (isinstance(t.value, ast.Name) and t.value.id != "self")) for t in n.targets)]
            nonconst = [(g, n) for g, n in stores if not isinstance(n.value, ast.Constant) and (g.cls is c or g.cls is None or fld in c.all_fields())]
            nonconst = [(g, n) for g, n in nonconst if g.cls is c or any(norm(t.value) in ("schema", "self.schema") for t in n.targets if isinstance(t, ast.Attribute))]
            inst = {"class": cq, "compared but not serialised": fld, "stores": [f"{g.qualname}: {norm(n)}" for g, n in stores if g.cls is c]}
            r.instances.append(inst)
            if nonconst:
                g, n = nonconst[0]
                r.fail(Finding("R-FIELDS", f"R-FIELDS|{cq}|{fld}", f"{g.file}:{n.lineno}",
                               f"{cq}.__eq__ compares `{fld}`, which the JSON form does not carry, and `{norm(n)}` in {g.qualname} gives it a non-constant value: "
                               f"after that the round-tripped copy is no longer equal to the original", []))
            else:
                r.ok()
    return r


# ------------------------------------------------------------------------------------------
# C12
# ------------------------------------------------------------------------------------------
SIMPLIFY_GUARDS = {
    "map": {"isinstance(part, MapValue)", "is_single_cond", "isinstance(part.condition, cnds.Key)", "part.condition.callable.name == 'equal_to'"},
    "map_or_list": {"isinstance(part, MapOrListValue)", "part.condition == cnds.NullCondition()", "isinstance(part.list_condition, cnds.Index)",
                    "not part.list_condition.flatten()[1]", "part.list_condition.callable.name == 'equal_to'", "isinstance(part.map_condition, cnds.Key)",
                    "not part.map_condition.flatten()[1]", "part.map_condition.callable.name == 'equal_to'"},
}


def _canon_part(prog, func, var):
    alias = local_alias_map(func)

    def c(e):
        import copy as _c
        e2 = _c.deepcopy(e)

        class Sub(ast.NodeTransformer):
            def visit_Name(self, n):
                if n.id in alias and n.id != var and isinstance(n.ctx, ast.Load) and n.id not in ("is_single_cond",):
                    return _c.deepcopy(alias[n.id])
                return n
        e2 = Sub().visit(e2)
        txt = canon(e2, {var: "part"})
        return txt.replace("not part.condition.flatten()[1]", "is_single_cond")
    return c


def rule_guarded(ctx):
    prog = ctx.prog
    r = RuleResult("R-GUARDED", floor=4)
    f = prog.flat("datapath.DataPath.simplify")
    loop = next((n for n in ast.walk(f.node) if isinstance(n, ast.For)), None)
    if loop is None:
        raise AnalysisError("DataPath.simplify: loop over parts not found")
    var = _target_names(loop.target)[-1]
    cf = _canon_part(prog, f, var)
    sites = [n for n in ast.walk(loop) if isinstance(n, ast.Subscript) and isinstance(n.slice, ast.Constant) and n.slice.value == "value" and norm(n.value).endswith(".callable.kwargs")]
    for sb in sites:
        facts = facts_at(prog, f, sb, cf)
        kind = "map_or_list" if "list_condition" in norm(sb) or "map_condition" in norm(sb) else "map"
        need = SIMPLIFY_GUARDS[kind]
        inst = {"site": f"simplify: {norm(sb)}", "guards": sorted(facts)}
        r.instances.append(inst)
        missing = sorted(need - facts)
        if not missing:
            r.ok()
        else:
            r.fail(Finding("R-GUARDED", f"R-GUARDED|datapath.DataPath.simplify|{kind}", f"{f.file}:{sb.lineno}",
                           f"`{norm(sb)}` is emitted as a primitive part without the guard(s) {missing}: a part with a different kind of condition "
                           f"(e.g. Key.length.equal_to(3), a non-equality or combined condition) would be serialised as the bare value of its argument", []))
    # what a plain part means is fixed by the constructor: which types become a map part, which a map-or-list
    # part.  simplify() may emit the bare value only for values the constructor turns back into the same part.
    init = prog.flat("datapath.DataPath.__init__")
    conv = {}
    for n in ast.walk(init.node):
        if isinstance(n, ast.If) and isinstance(n.test, ast.Call) and norm(n.test.func) == "isinstance" and len(n.test.args) == 2:
            t = n.test.args[1]
            types = frozenset(norm(x) for x in (t.elts if isinstance(t, ast.Tuple) else [t]))
            for st in n.body:
                if isinstance(st, ast.Assign) and isinstance(st.value, ast.Call) and isinstance(st.value.func, ast.Name) and st.value.func.id in ("MapValue", "ListValue", "MapOrListValue"):
                    conv[st.value.func.id] = types
    r.instances.append({"plain part conversion (DataPath.__init__)": {k: sorted(v) for k, v in conv.items()}})

    def typed(facts, expr_txt):
        """type names T such that `isinstance(<expr>, T)` is among the facts"""
        out = set()
        for ftxt in facts:
            try:
                e = ast.parse(ftxt, mode="eval").body
            except SyntaxError:
                continue
            for c in ast.walk(e):
                if isinstance(c, ast.Call) and norm(c.func) == "isinstance" and len(c.args) == 2 and norm(c.args[0]) == expr_txt and not ftxt.startswith("not "):
                    t = c.args[1]
                    out.add(frozenset(norm(x) for x in (t.elts if isinstance(t, ast.Tuple) else [t])))
        return out
    for sb in sites:
        app = next((p_ for p_ in _parents(sb) if isinstance(p_, ast.Call) and isinstance(p_.func, ast.Attribute) and p_.func.attr == "append"), None)
        at = sb
        if app is None:
            # hoisted into a local first (`key = ...kwargs["value"]` ... `out.append(key)`): judge at the append
            st = stmt_of(sb)
            if isinstance(st, ast.Assign) and st.value is sb and len(st.targets) == 1 and isinstance(st.targets[0], ast.Name):
                v = st.targets[0].id
                at = next((c for c in ast.walk(loop) if isinstance(c, ast.Call) and isinstance(c.func, ast.Attribute) and c.func.attr == "append"
                           and len(c.args) == 1 and isinstance(c.args[0], ast.Name) and c.args[0].id == v), None)
            else:
                at = None
            if at is None:
                continue
        facts = facts_at(prog, f, at, cf)
        etxt = cf(sb)
        kind = "map_or_list" if "list_condition" in norm(sb) or "map_condition" in norm(sb) else "map"
        want = conv.get("MapValue" if kind == "map" else "MapOrListValue")
        inst = {"emitted plain part": etxt, "kind": kind, "constructor accepts": sorted(want) if want else None, "type guards": [sorted(x) for x in typed(facts, etxt)]}
        r.instances.append(inst)
        if want is None:
            r.undecided.append(inst)
            continue
        ok = any(t <= want for t in typed(facts, etxt))
        why = f"no dominating `isinstance({etxt}, ({', '.join(sorted(want))}))`"
        if ok and kind == "map_or_list":
            other = etxt.replace("list_condition", "map_condition") if "list_condition" in etxt else etxt.replace("map_condition", "list_condition")
            ok = f"{etxt} == {other}" in facts or f"{other} == {etxt}" in facts
            why = f"no dominating `{other} == {etxt}` (the key and the index of a plain integer part are the same value)"
        if ok:
            r.ok()
        else:
            r.fail(Finding("R-GUARDED", f"R-GUARDED|datapath.DataPath.simplify|{kind}|plain-type", f"{f.file}:{sb.lineno}",
                           f"`{etxt}` is emitted as a plain part, but {why}: the constructor turns a plain value of another type into a different part "
                           f"(MapValue(1) -> 1 -> key-or-index 1; MapOrListValue(key='a', index=0) -> 0), so the serialised path selects differently", []))
    if len(sites) < 2:
        raise AnalysisError("DataPath.simplify: the two `...callable.kwargs['value']` emission sites not found")
    # sweep: every other read of a condition's 'value' argument in the package must sit under a guard on the callable's name
    for g in prog.all_functions():
        if g.qualname == f.qualname:
            continue
        for n in ast.walk(g.node):
            if isinstance(n, ast.Subscript) and isinstance(n.slice, ast.Constant) and n.slice.value == "value" and norm(n.value).endswith("callable.kwargs"):
                recv = norm(n.value)[: -len(".kwargs")]
                guards = sorted(facts_at(prog, g, n, canon))
                inst = {"site": f"{g.qualname}: {norm(n)}", "guards": guards}
                r.instances.append(inst)
                if any(f"{recv}.name ==" in t or f"{recv}.name in" in t for t in guards):
                    r.ok()
                else:
                    r.fail(Finding("R-GUARDED", f"R-GUARDED|{g.qualname}|{norm(n)}", f"{g.file}:{n.lineno}",
                                   f"`{norm(n)}` in {g.qualname} reads the 'value' argument of a condition without checking which callable the condition uses: "
                                   f"conditions built by other constructors (e.g. the index/key pair of a map-or-list part, in_range) have no such argument (KeyError)", []))
    # to_part_specs: primitives only via simplify(); bare type only for a null condition and no label; otherwise raise
    g = prog.flat("datapath.DataPath.to_part_specs")
    lp = next((n for n in ast.walk(g.node) if isinstance(n, ast.For)), None)
    names = _target_names(lp.target) if lp is not None else []
    pvar = names[0] if names else "part"
    cg = _canon_part(prog, g, pvar)
    bare = [n for n in ast.walk(g.node) if isinstance(n, ast.Dict) and len(n.keys) == 1 and isinstance(n.keys[0], ast.Constant) and n.keys[0].value == "type"]
    # explicit specs ({"type": .., "key.equal_to": v}) may only carry a value that simplify() produced
    for n in ast.walk(g.node):
        if isinstance(n, ast.Dict) and len(n.keys) > 1 and any(isinstance(k, ast.Constant) and k.value == "type" for k in n.keys):
            vals = [norm(v) for k, v in zip(n.keys, n.values) if isinstance(k, ast.Constant) and k.value != "type"]
            inst = {"explicit spec": norm(n)[:100], "values": vals}
            r.instances.append(inst)
            if all(isinstance(v, (ast.Name, ast.Subscript)) and not any(isinstance(x, ast.Attribute) and x.attr in ("kwargs", "args", "callable") for x in ast.walk(v))
                   for k, v in zip(n.keys, n.values) if isinstance(k, ast.Constant) and k.value != "type"):
                r.ok()
            else:
                r.fail(Finding("R-GUARDED", "R-GUARDED|datapath.DataPath.to_part_specs|explicit", f"{g.file}:{n.lineno}",
                               f"the explicit spec `{norm(n)[:90]}` reads a condition's arguments directly instead of the value simplify() vouches for", []))
            # ... and its "type" names the class of the part it stands for: established by a class test on the part, or by
            # a type test on the plain value that is exactly the constructor's conversion for that class
            tname = next((v.value for k, v in zip(n.keys, n.values) if isinstance(k, ast.Constant) and k.value == "type" and isinstance(v, ast.Constant)), None)
            cls_of = {"map_value": "MapValue", "list_value": "ListValue", "map_or_list_value": "MapOrListValue"}.get(tname)
            if cls_of is None:
                r.undecided.append({"explicit spec": norm(n)[:100], "what": "type is not a literal part-type name"})
                continue
            efacts = facts_at(prog, g, n, canon)
            pos, neg = set(), set()
            for ftxt in efacts:
                try:
                    e = ast.parse(ftxt, mode="eval").body
                except SyntaxError:
                    continue
                negated = isinstance(e, ast.UnaryOp) and isinstance(e.op, ast.Not)
                c = e.operand if negated else e
                if isinstance(c, ast.Call) and norm(c.func) == "isinstance" and len(c.args) == 2:
                    t = c.args[1]
                    ts = frozenset(norm(x) for x in (t.elts if isinstance(t, ast.Tuple) else [t]))
                    (neg if negated else pos).add(ts)
            others = {"MapValue", "ListValue", "MapOrListValue"} - {cls_of}
            by_class = frozenset({cls_of}) in pos or (cls_of == "MapOrListValue" and frozenset({"MapValue"}) in neg and not conv.get("ListValue"))
            by_value = conv.get(cls_of) is not None and (any(t <= conv[cls_of] for t in pos)
                                                         or (cls_of == "MapOrListValue" and conv.get("MapValue") is not None and any(t >= conv["MapValue"] for t in neg)))
            inst = {"explicit spec type": tname, "class established by": sorted(sorted(x) for x in pos) + [["not"] + sorted(x) for x in neg]}
            r.instances.append(inst)
            if by_class or by_value:
                r.ok()
            elif pos or neg:
                r.fail(Finding("R-GUARDED", f"R-GUARDED|datapath.DataPath.to_part_specs|explicit-class|{tname}", f"{g.file}:{n.lineno}",
                               f"the explicit spec of type '{tname}' is written under the tests {inst['class established by']}, which do not establish that the part is a {cls_of} "
                               f"(the constructor turns {sorted(conv.get('MapValue') or [])} into a map part and {sorted(conv.get('MapOrListValue') or [])} into a map-or-list part): "
                               f"e.g. a float map key is written as a map-or-list part, which also matches a list index", []))
            else:
                r.undecided.append(inst)
    for b in bare:
        facts = facts_at(prog, g, b, cg)
        inst = {"bare spec": norm(b), "under": sorted(facts)}
        r.instances.append(inst)
        null_ok = any(x in facts for x in ("part.condition == cnds.NullCondition()", "cnds.NullCondition() == part.condition", "part.condition.is_null"))
        label_ok = any(x in facts for x in ("part.label is None", "not part.label"))
        if null_ok and label_ok:
            r.ok()
        else:
            r.fail(Finding("R-GUARDED", f"R-GUARDED|datapath.DataPath.to_part_specs|bare-type", f"{g.file}:{b.lineno}",
                           f"the bare spec `{norm(b)}` may only be emitted for a part whose condition is null and which has no label (facts established: {sorted(facts)})", []))
    # "is this path bound to a document of its own?" must be asked the same way where the binding is *used* (get_data)
    # and where it makes the path unserialisable (to_part_specs): truthiness and `is not None` differ on an empty document
    def binding_tests(fn):
        out = set()
        for n in ast.walk(fn.node):
            tests = []
            if isinstance(n, (ast.If, ast.IfExp, ast.While)):
                tests.append(n.test)
            for t in tests:
                stack = [t]
                while stack:
                    e = stack.pop()
                    if isinstance(e, ast.BoolOp):
                        stack.extend(e.values)
                    elif isinstance(e, ast.UnaryOp) and isinstance(e.op, ast.Not):
                        stack.append(e.operand)
                    elif isinstance(e, ast.Attribute) and norm(e) == "self.source_data":
                        out.add("truthiness")
                    elif isinstance(e, ast.Compare) and norm(e.left) == "self.source_data" and len(e.ops) == 1 and isinstance(e.ops[0], (ast.Is, ast.IsNot)) \
                            and isinstance(e.comparators[0], ast.Constant) and e.comparators[0].value is None:
                        out.add("is (not) None")
                    elif isinstance(e, ast.Compare) and norm(e.left) == "self.source_data":
                        out.add(f"other: {norm(e)}")
        return out
    gd = prog.flat("datapath.DataPath.get_data")
    used, refused = binding_tests(gd), binding_tests(g)
    inst = {"own-document binding tested in get_data by": sorted(used), "in to_part_specs by": sorted(refused)}
    r.instances.append(inst)
    if used and refused and len(used) == 1 and len(refused) == 1:
        if used == refused:
            r.ok()
        else:
            r.fail(Finding("R-GUARDED", "R-GUARDED|datapath.DataPath.to_part_specs|binding-test", f"{g.file}:{g.node.lineno}",
                           f"get_data decides whether the path reads its own bound document by {sorted(used)[0]}, to_part_specs decides whether to refuse a bound path by {sorted(refused)[0]}: "
                           f"for a path bound to an empty document the two disagree, and the path is serialised although the rebuilt (unbound) path selects from the caller's document", []))
    else:
        r.undecided.append(inst)
    prim = [n for n in ast.walk(g.node) if isinstance(n, ast.Subscript) and isinstance(n.slice, ast.Constant) and n.slice.value == "value" and "kwargs" in norm(n.value)]
    inst = {"to_part_specs uses simplify()": "self.simplify()" in ast.unparse(g.node), "refusals": len([n for n in ast.walk(g.node) if isinstance(n, ast.Raise)])}
    r.instances.append(inst)
    if not inst["refusals"]:
        r.fail(Finding("R-GUARDED", "R-GUARDED|datapath.DataPath.to_part_specs|no-raise", f"{g.file}:{g.node.lineno}", "to_part_specs must refuse (raise) parts it cannot represent", []))
    else:
        r.ok()
    return r


# ------------------------------------------------------------------------------------------
# C17
# ------------------------------------------------------------------------------------------
def rule_thread(ctx):
    prog = ctx.prog
    r = RuleResult("R-THREAD", floor=8)
    n_sites = 0
    for f in prog.all_functions():
        if f.module.name not in ("conditions", "rules", "data", "datapath"):
            continue
        has_param = any(p.name == "source_data" for p in f.params)
        for n in ast.walk(f.node):
            if not isinstance(n, ast.Call):
                continue
            kw = next((k for k in n.keywords if k.arg == "source_data"), None)
            if kw is None:
                continue
            n_sites += 1
            inst = {"site": f"{f.qualname}: {norm(n)[:90]}", "passes": norm(kw.value)}
            r.instances.append(inst)
            if f.cls is not None and f.cls.qualname == "rules.RuleTest":
                ok = norm(expand_aliases(f, kw.value)) == "self.data"
            elif f.qualname == "datapath.DataPath.__init__" or not has_param:
                ok = True
                inst["note"] = "not on the evaluation path"
            else:
                ok = norm(kw.value) == "source_data"
            if ok:
                r.ok()
            else:
                r.fail(Finding("R-THREAD", f"R-THREAD|{f.qualname}|{norm(n)[:60]}", f"{f.file}:{n.lineno}",
                               f"`source_data={norm(kw.value)}`: the validated document must be forwarded unchanged from the rule test to argument resolution", []))
    # a call whose callee takes `source_data`, made from a function that has it, must pass it on
    takes = {}
    for g in prog.all_functions():
        if any(p.name == "source_data" for p in g.params) and g.module.name in ("conditions",):
            takes.setdefault(g.name, []).append(g)
    for f in prog.all_functions():
        if f.module.name != "conditions" or not any(p.name == "source_data" for p in f.params):
            continue
        for n in ast.walk(f.node):
            if not (isinstance(n, ast.Call) and isinstance(n.func, ast.Attribute)):
                continue
            cname = n.func.attr if n.func.attr != "callable" else "__call__"
            if isinstance(n.func, ast.Attribute) and n.func.attr == "callable" and isinstance(n.func.value, ast.Name) and n.func.value.id == "self":
                cname = "__call__"
            cands = takes.get(cname, [])
            if not cands or any(k.arg == "source_data" for k in n.keywords):
                continue
            # positional?
            passed = False
            for g in cands:
                names = [p.name for p in g.params]
                pos = names.index("source_data") - (1 if g.cls is not None and g.kind == "method" else 0)
                if len(n.args) > pos and norm(n.args[pos]) == "source_data":
                    passed = True
            inst = {"site": f"{f.qualname}: {norm(n)[:90]}", "passes": "positional" if passed else "NOT PASSED"}
            r.instances.append(inst)
            n_sites += 1
            if passed:
                r.ok()
            else:
                r.fail(Finding("R-THREAD", f"R-THREAD|{f.qualname}|{norm(n)[:60]}|dropped", f"{f.file}:{n.lineno}",
                               f"`{norm(n)[:100]}` does not pass `source_data` on although {cands[0].qualname} takes it: path-valued arguments below this call are no longer resolved against the validated document", []))
    # positional forwarding in the resolver
    pc = prog.cls("conditions.PreparedConditionCallable")
    call = prog.flat("conditions.PreparedConditionCallable.__call__")
    pnames = [p.name for p in call.params]
    inst = {"__call__": " ; ".join(norm(s) for s in call.node.body)[:300]}
    r.instances.append(inst)
    ok = None
    if len(pnames) >= 3:
        item, src = pnames[1], pnames[2]
        finals = [n for n in ast.walk(call.node) if isinstance(n, ast.Call) and norm(n.func) in ("self.func", "self._func")]
        resolves = [n for n in ast.walk(call.node) if isinstance(n, ast.Call) and norm(n.func) not in ("self.func", "self._func")
                    and any(isinstance(a, ast.Name) and a.id == src for a in list(n.args) + [k.value for k in n.keywords])]
        good_final = bool(finals) and all(n.args and isinstance(n.args[0], ast.Name) and n.args[0].id == item
                                          and any(isinstance(a, ast.Starred) for a in n.args[1:]) and any(k.arg is None for k in n.keywords) for n in finals)
        inst["final calls"] = [norm(n) for n in finals]
        inst["resolution calls"] = [norm(n)[:80] for n in resolves]
        if finals and not good_final:
            ok = False
        elif finals and resolves:
            # the starred arguments must not be the stored ones on the resolving path
            raw = [n for n in finals if any(isinstance(a, ast.Starred) and norm(a.value) in ("self.args", "self._args") for a in n.args)
                   and f"not {src}" not in facts_at(prog, call, n, canon)]
            # ... also when the stored arguments reach the call through a local
            starred = {norm(a.value) for n in finals for a in n.args if isinstance(a, ast.Starred) and isinstance(a.value, ast.Name)}
            for n in ast.walk(call.node):
                if not (isinstance(n, ast.Assign) and len(n.targets) == 1):
                    continue
                t, v = n.targets[0], n.value
                pairs = [(t, v)] if isinstance(t, ast.Name) else (list(zip(t.elts, v.elts)) if isinstance(t, ast.Tuple) and isinstance(v, ast.Tuple) and len(t.elts) == len(v.elts) else [])
                for tt, vv in pairs:
                    if isinstance(tt, ast.Name) and tt.id in starred and norm(vv) in ("self.args", "self._args") and f"not {src}" not in facts_at(prog, call, n, canon):
                        raw.append(n)
            inst["unresolved arguments used outside `not source_data`"] = [norm(x)[:80] for x in raw]
            ok = not raw
    if ok is True:
        r.ok()
    elif ok is None:
        r.undecided.append(inst)
    else:
        r.fail(Finding("R-THREAD", "R-THREAD|conditions.PreparedConditionCallable.__call__", f"{call.file}:{call.node.lineno}",
                       "the prepared callable must resolve its arguments against `source_data` and call the function with the item first and the resolved arguments", []))
    if n_sites < 8:
        raise AnalysisError(f"R-THREAD: only {n_sites} call sites forwarding source_data found")
    return r


def rule_depth(ctx):
    prog = ctx.prog
    r = RuleResult("R-DEPTH", floor=3)
    res = prog.flat("conditions.PreparedConditionCallable.__call__")
    src = ast.unparse(res.node)
    helper = None
    for n in ast.walk(res.node):
        if isinstance(n, ast.Call) and isinstance(n.func, ast.Name) and n.func.id in res.module.functions:
            helper = res.module.functions[n.func.id]
    inst = {"resolver": res.qualname, "helper": helper.qualname if helper else None}
    r.instances.append(inst)
    where = f"{res.file}:{res.node.lineno}"
    target = helper or res
    tsrc = ast.unparse(target.node)
    is_rec = helper is not None and any(isinstance(n, ast.Call) and isinstance(n.func, ast.Name) and n.func.id == helper.name for n in ast.walk(helper.node))
    kinds = {k: (f"isinstance(arg, {k})" in tsrc or f"isinstance({target.params[0].name}, {k})" in tsrc or (k in ("list", "tuple") and "isinstance(" in tsrc and f"({'list, tuple'})" in tsrc)) for k in ("list", "tuple", "dict")}
    inst["recursive"] = is_rec
    inst["container kinds handled"] = kinds
    # placement depth in the parser: DataPath objects are stored into items of list / values of dict arguments
    from ..anchors import condition_parser
    ps = condition_parser(prog)
    places = [norm(n) for n in ast.walk(ps.node) if isinstance(n, ast.Assign) and isinstance(n.targets[0], ast.Subscript) and norm(n.targets[0].value) == "spec_val" and "from_spec" in norm(n.value)]
    inst["parser places paths at"] = places
    if not places:
        r.undecided.append(inst)
    elif is_rec and kinds["list"] and kinds["dict"]:
        r.ok()
    else:
        r.fail(Finding("R-DEPTH", "R-DEPTH|conditions.PreparedConditionCallable._get_resolved_data_path_args", where,
                       f"the parser stores DataPath objects inside list / mapping arguments ({places}), but argument resolution does not descend into them "
                       f"(recursive: {is_rec}, kinds handled: {kinds}): such a path argument is compared as an object instead of being resolved", []))
    # a resolved path uses get_data(source_data, return_paths=False) and builds new containers
    gd = [norm(n) for n in ast.walk(target.node) if isinstance(n, ast.Call) and isinstance(n.func, ast.Attribute) and n.func.attr == "get_data"]
    inst2 = {"resolution call": gd}
    r.instances.append(inst2)
    if gd and all(g.endswith(".get_data(source_data, return_paths=False)") for g in gd):
        r.ok()
    else:
        r.fail(Finding("R-DEPTH", "R-DEPTH|resolution-call", f"{target.file}:{target.node.lineno}", f"a path argument must be resolved with `.get_data(source_data, return_paths=False)` (found {gd})", []))
    stores = [norm(n) for n in ast.walk(target.node) if isinstance(n, ast.Assign) and isinstance(n.targets[0], ast.Subscript) and isinstance(n.targets[0].value, ast.Name) and n.targets[0].value.id in [p.name for p in target.params]]
    inst3 = {"in-place stores into the argument": stores}
    r.instances.append(inst3)
    if stores:
        r.fail(Finding("R-DEPTH", "R-DEPTH|in-place", f"{target.file}:{target.node.lineno}",
                       f"{stores[0]}: resolving in place replaces the stored path by the first document's value; later documents are judged against a stale value", []))
    else:
        r.ok()
    # R-ESCAPE-KEY: the parser stores whatever DataPath.from_spec returns (a path, or the un-escaped literal mapping)
    vals = [n for n in ast.walk(ps.node) if isinstance(n, ast.Assign) and isinstance(n.targets[0], ast.Subscript) and norm(n.targets[0].value) == "spec_val"]
    for v in vals:
        inst4 = {"coercion store": norm(v)}
        r.instances.append(inst4)
        direct = isinstance(v.value, ast.Call) and norm(v.value.func).endswith("DataPath.from_spec")
        cond = _enclosing(v, ast.If)
        in_try = _enclosing(v, ast.Try)
        guarded_by_type = cond is not None and in_try is not None and any(p is in_try for p in _parents(cond)) is False and "isinstance" in norm(cond.test) and "DataPath" in norm(cond.test)
        if cond is not None and "isinstance" in norm(cond.test) and "DataPath" in norm(cond.test) and any(v in list(ast.walk(b)) for b in cond.body):
            guarded_by_type = True
        if direct and not guarded_by_type:
            r.ok()
        elif guarded_by_type or not direct:
            r.fail(Finding("R-ESCAPE-KEY", f"R-ESCAPE-KEY|{ps.qualname}|{norm(v)[:60]}", f"{ps.file}:{v.lineno}",
                           f"`{norm(v)}`: the result of DataPath.from_spec must be stored as it is - for an escaped '\\\\path' mapping it is the un-escaped literal, "
                           f"which a DataPath-only filter would drop (the literal then keeps its escaped key)", []))
    top = [n for n in ast.walk(ps.node) if isinstance(n, ast.Assign) and norm(n.targets[0]) == "spec_val" and "DataPath.from_spec(spec_val)" in norm(n.value)]
    inst5 = {"top-level coercion": [norm(t) for t in top]}
    r.instances.append(inst5)
    if top:
        r.ok()
    else:
        r.undecided.append(inst5)
    from ..anchors import path_parser
    pp = path_parser(prog)
    esc = [n for n in ast.walk(pp.node) if isinstance(n, ast.Return) and n.value is not None and isinstance(n.value, (ast.DictComp, ast.Dict)) or (isinstance(n, ast.Return) and isinstance(n.value, ast.Name) and n.value.id == "spec")]
    multi = [n for n in ast.walk(pp.node) if isinstance(n, ast.If) and norm(n.test) == "len(spec) > 1" and any(isinstance(x, ast.Raise) for x in n.body)]
    inst6 = {"escape branch returns": [norm(e.value)[:80] for e in esc], "single-key check": [head(m) for m in multi]}
    r.instances.append(inst6)
    if esc and multi and esc[0].lineno < multi[0].lineno:
        r.ok()
    elif not esc or not multi:
        r.undecided.append(inst6)
    else:
        r.fail(Finding("R-ESCAPE-KEY", f"R-ESCAPE-KEY|{pp.qualname}", f"{pp.file}:{pp.node.lineno}",
                       "the '\\\\path' escape branch must return the un-escaped literal mapping before the single-key check can reject it", []))
    return r


# ------------------------------------------------------------------------------------------
# additions after the second round of seeded changes
# ------------------------------------------------------------------------------------------
def rule_reasons(ctx):
    """Every failing item gets at least one textual reason: for an `xor` both operands may
    hold, so the operator row is then the only source of a reason and must not be skipped."""
    prog = ctx.prog
    r = RuleResult("R-REASONS", floor=1)
    f = prog.flat("data.FilteredDataLike.get_failure_by_index")
    skips = [n for n in ast.walk(f.node) if isinstance(n, ast.If) and any(isinstance(x, ast.Continue) for x in n.body)
             and isinstance(n.test, ast.Compare) and isinstance(n.test.ops[0], ast.In) and isinstance(n.test.comparators[0], (ast.Tuple, ast.List, ast.Set))]
    for sk in skips:
        names = [e.value for e in sk.test.comparators[0].elts if isinstance(e, ast.Constant)]
        inst = {"skipped truth-table rows": names}
        r.instances.append(inst)
        if "xor" in names:
            r.fail(Finding("R-REASONS", "R-REASONS|data.FilteredDataLike.get_failure_by_index", f"{f.file}:{sk.lineno}",
                           f"truth-table rows {names} are skipped when collecting failure reasons; an item failing an xor because both operands hold has no other reason row, "
                           f"so its failure would carry no reason", []))
        else:
            r.ok()
    if not skips:
        r.instances.append({"skipped truth-table rows": "none recognised"})
        r.undecided.append({"what": "row-skipping test not in the recognised form"})
    # the operator row of a combination reports "false" exactly where the combination's own result is
    # False: it is the reason row of an item that fails an xor with both operands true
    init = prog.flat("data.FilteredDataBinaryOp.__init__")
    asg = [n for n in ast.walk(init.node) if isinstance(n, ast.Assign) and norm(n.targets[0]) == "self.callable_false"]
    for a in asg:
        inst = {"combination callable_false": norm(a.value)}
        r.instances.append(inst)
        v = a.value
        good = (isinstance(v, ast.ListComp) and len(v.generators) == 1 and not v.generators[0].ifs and norm(v.generators[0].iter) in ("self.result", "self._result")
                and isinstance(v.elt, ast.UnaryOp) and isinstance(v.elt.op, ast.Not) and norm(v.elt.operand) == norm(v.generators[0].target))
        from_children = any(isinstance(x, ast.Attribute) and x.attr == "callable_false" for x in ast.walk(v))
        if good:
            r.ok()
        elif from_children:
            r.fail(Finding("R-REASONS", "R-REASONS|data.FilteredDataBinaryOp.__init__|callable_false", f"{init.file}:{a.lineno}",
                           f"`{norm(a)[:120]}`: the combination's `callable_false` row is derived from the operands' rows instead of the combination's own result; "
                           f"an item failing an xor because both operands hold (no operand row is false) then carries no reason", []))
        else:
            r.undecided.append(inst)
    return r


def rule_names(ctx):
    """Every comparison function a DSL constructor binds is a plain `def` of that name in
    callables.py: serialisation, equality and path simplification identify it by __name__."""
    prog = ctx.prog
    r = RuleResult("R-NAMES", floor=30)
    cond = prog.module("conditions")
    mod = prog.module("callables")
    for c in cond.classes.values():
        for f in c.methods.values():
            if f.kind != "classmethod":
                continue
            for n in ast.walk(f.node):
                if isinstance(n, ast.Call) and isinstance(n.func, ast.Name) and f.params and n.func.id == f.params[0].name and n.args and isinstance(n.args[0], ast.Attribute) and norm(n.args[0].value) == "call_funcs":
                    name = n.args[0].attr
                    inst = {"constructor": f.qualname, "binds": f"callables.{name}"}
                    r.instances.append(inst)
                    fn = mod.functions.get(name)
                    if fn is not None:
                        deco = [norm(d) for d in fn.node.decorator_list]
                        if deco:
                            r.fail(Finding("R-NAMES", f"R-NAMES|callables.{name}|decorated", f"{fn.file}:{fn.node.lineno}",
                                           f"callables.{name} is decorated ({deco}); its __name__ must stay `{name}`", []))
                        else:
                            r.ok()
                    elif name in mod.constants:
                        r.fail(Finding("R-NAMES", f"R-NAMES|callables.{name}|not-a-def", f"{mod.relpath}:{getattr(mod.constants[name], 'lineno', 1)}",
                                       f"callables.{name} is bound by assignment (`{name} = {norm(mod.constants[name])}`), not defined with `def {name}`: its __name__ is whatever the right-hand side produces "
                                       f"(functools.wraps copies the wrapped function's), while serialisation, equality and path simplification identify the comparison by __name__", []))
                    else:
                        r.fail(Finding("R-NAMES", f"R-NAMES|callables.{name}|missing", f"{f.file}:{n.lineno}", f"{f.qualname} binds callables.{name}, which does not exist", []))
    return r


def rule_derived(ctx):
    """A field that __init__ computes from another field must be recomputed wherever that
    other field is rebound (otherwise the object carries stale derived state)."""
    prog = ctx.prog
    r = RuleResult("R-DERIVED", floor=1)
    for cq in ("schema.Schema", "datapath.DataPath"):
        c = prog.cls(cq)
        init = c.methods.get("__init__")
        if init is None:
            continue
        stores = {}
        for n in ast.walk(init.node):
            if isinstance(n, ast.Assign) and isinstance(n.targets[0], ast.Attribute) and norm(n.targets[0].value) == "self":
                stores[n.targets[0].attr] = n.value
        derived = {}
        for fld, val in stores.items():
            deps = {x.attr for x in ast.walk(val) if isinstance(x, ast.Attribute) and norm(x.value) == "self" and x.attr in stores and x.attr != fld}
            if deps:
                derived[fld] = deps
        inst = {"class": cq, "derived fields": {k: sorted(v) for k, v in derived.items()}}
        r.instances.append(inst)
        bad = []
        for m in c.methods.values():
            if m.name == "__init__":
                continue
            rebinds = {n.targets[0].attr for n in ast.walk(m.node) if isinstance(n, ast.Assign) and isinstance(n.targets[0], ast.Attribute) and norm(n.targets[0].value) == "self"}
            for fld, deps in derived.items():
                if deps & rebinds and fld not in rebinds:
                    bad.append((m, fld, sorted(deps & rebinds)))
        if bad:
            for m, fld, deps in bad:
                r.fail(Finding("R-DERIVED", f"R-DERIVED|{m.qualname}|{fld}", f"{m.file}:{m.node.lineno}",
                               f"{cq}.__init__ computes `{fld}` from {deps}, and {m.qualname} rebinds {deps} without recomputing `{fld}`: the object keeps a stale `{fld}`", []))
        else:
            r.ok()
    return r


def rule_eq_const_fields(ctx):
    """Fields that equality compares but the JSON form / the definition does not carry are only
    ever assigned constants (so using an object never changes what it is equal to)."""
    prog = ctx.prog
    r = RuleResult("R-EQCONST", floor=1)
    from .eq import compared_fields
    for cq, carried in (("schema.Schema", {"rules"}), ("rules.Rule", {"path", "condition", "cast"})):
        c = prog.cls(cq)
        eq = c.lookup_method("__eq__")
        comp = compared_fields(prog, c, eq)
        for fld in sorted(comp - carried):
            stores = []
            for g in prog.all_functions():
                for n in ast.walk(g.node):
                    if isinstance(n, ast.Assign):
                        for t in n.targets:
                            if isinstance(t, ast.Attribute) and t.attr == fld:
                                recv = norm(t.value)
                                if (g.cls is c and recv == "self") or recv in ("schema", "self.schema"):
                                    stores.append((g, n))
            nonconst = [(g, n) for g, n in stores if not isinstance(n.value, ast.Constant)]
            inst = {"class": cq, "compared, not part of the definition": fld, "stores": [f"{g.qualname}: {norm(n)}" for g, n in stores]}
            r.instances.append(inst)
            if nonconst:
                g, n = nonconst[0]
                r.fail(Finding("R-EQCONST", f"R-EQCONST|{cq}|{fld}", f"{g.file}:{n.lineno}",
                               f"{cq}.__eq__ compares `{fld}`, which is not part of the definition / JSON form, and `{norm(n)}` in {g.qualname} gives it a non-constant value: "
                               f"after that the object is no longer equal to a rebuilt or round-tripped copy of itself", []))
            else:
                r.ok()
    return r


def rule_noclosure(ctx):
    """Parsers store no per-call function object (nested def / lambda) in what they build:
    objects compared by identity would make two parses of one spec unequal."""
    prog = ctx.prog
    r = RuleResult("R-NOCLOSURE", floor=4)
    from ..anchors import condition_parser, path_parser, part_parser
    funcs = [condition_parser(prog), path_parser(prog), part_parser(prog), prog.flat("rules.Rule.from_spec"), prog.flat("schema.Schema.init_rules"), prog.flat("datapath.DataPath.from_part_specs")]
    for f in funcs:
        nested = [n for n in ast.walk(f.node) if isinstance(n, (ast.FunctionDef, ast.AsyncFunctionDef)) and n is not f.node]
        lambdas = [n for n in ast.walk(f.node) if isinstance(n, ast.Lambda) and not (isinstance(getattr(n, "_parent", None), ast.keyword) and n._parent.arg == "key")]
        inst = {"parser": f.qualname, "nested functions": [n.name for n in nested], "lambdas": len(lambdas)}
        r.instances.append(inst)
        esc = []
        for n in nested:
            uses = [x for x in ast.walk(f.node) if isinstance(x, ast.Name) and x.id == n.name and isinstance(x.ctx, ast.Load)]
            # a nested function that is only *called* is a local helper; one that is stored / passed on escapes
            for u in uses:
                par = getattr(u, "_parent", None)
                if not (isinstance(par, ast.Call) and par.func is u):
                    esc.append(n.name)
        if esc or lambdas:
            what = sorted(set(esc)) + (["<lambda>"] if lambdas else [])
            r.fail(Finding("R-NOCLOSURE", f"R-NOCLOSURE|{f.qualname}", f"{f.file}:{(nested or lambdas)[0].lineno}",
                           f"{f.qualname} creates a function object per call ({what}) and stores / passes it on: functions compare by identity, so parsing the same spec twice gives unequal objects", []))
        else:
            r.ok()
    return r


def rule_swallow(ctx):
    """The condition parser probes argument values with the data-path parser and keeps the value as
    a literal when the probe says "this is not a path spec".  Once the path parser has recognised
    the spec and started building parts, every error means a *malformed path*: it must not belong
    to an exception class the probe swallows (or a malformed path argument is accepted as a literal)."""
    from ..anchors import condition_parser, path_parser
    from ..program import ClassInfo
    prog = ctx.prog
    r = RuleResult("R-SWALLOW", floor=2)
    cp, pp = condition_parser(prog), path_parser(prog)
    swallowed = {}
    probe_fns = [cp] + [g for g in helper_closure(prog, prog.functions.get(cp.qualname, cp))[1:]]
    for n in [x for g in probe_fns for x in ast.walk(g.node)]:
        if not isinstance(n, ast.Try):
            continue
        probes = [c for b in n.body for c in ast.walk(b) if isinstance(c, ast.Call) and isinstance(c.func, ast.Attribute) and c.func.attr == pp.name and "DataPath" in norm(c.func.value)]
        if not probes:
            continue
        for h in n.handlers:
            if any(isinstance(x, ast.Raise) for x in ast.walk(h)):
                continue
            types = h.type.elts if isinstance(h.type, ast.Tuple) else ([h.type] if h.type is not None else [])
            for t in types:
                ent = prog.resolve_expr(cp.module, t)
                if isinstance(ent, ClassInfo):
                    swallowed.setdefault(ent.qualname, []).append(h)
                elif norm(t) in ("Exception", "BaseException"):
                    swallowed.setdefault("builtins.Exception", []).append(h)
            if h.type is None:
                swallowed.setdefault("builtins.Exception", []).append(h)
    inst = {"probe handlers in the condition parser swallow": sorted(swallowed)}
    r.instances.append(inst)
    if not swallowed:
        r.undecided.append(inst)
        return r

    def caught(mod, exc_expr):
        e = exc_expr.func if isinstance(exc_expr, ast.Call) else exc_expr
        ent = prog.resolve_expr(mod, e) if e is not None else None
        if isinstance(ent, ClassInfo):
            if "builtins.Exception" in swallowed:
                return "builtins.Exception", ent.qualname
            return next((q for q in swallowed if q in prog.classes and prog.classes[q] in ent.mro), None), ent.qualname
        return None, None
    # (1) raises of the path parser after part building started
    clsname = pp.params[0].name if pp.params else "cls"
    build_idx = None
    for i, st in enumerate(pp.node.body):
        if any(isinstance(c, ast.Call) and isinstance(c.func, ast.Attribute) and isinstance(c.func.value, ast.Name) and c.func.value.id in (clsname, "DataPath") and c.func.attr != pp.name
               for c in ast.walk(st)):
            build_idx = i
            break
    inst = {"part building starts at": head(pp.node.body[build_idx]) if build_idx is not None else None}
    r.instances.append(inst)
    if build_idx is None:
        r.undecided.append(inst)
    else:
        for st in pp.node.body[build_idx:]:
            for x in ast.walk(st):
                if isinstance(x, ast.Raise) and x.exc is not None:
                    q, name = caught(pp.module, x.exc)
                    inst = {"raise after part building": norm(x)[:90], "class": name, "swallowed as": q}
                    r.instances.append(inst)
                    if q:
                        r.fail(Finding("R-SWALLOW", f"R-SWALLOW|{pp.qualname}|{name}", f"{pp.file}:{x.lineno}",
                                       f"`{norm(x)[:80]}` reports a malformed data path (the spec was already recognised as a path and its parts built) with {name}, "
                                       f"which the condition parser's probe swallows (`except {q.split('.')[-1]}`): a malformed path argument - e.g. an unknown path suffix - "
                                       f"is accepted as a literal mapping", []))
                    else:
                        r.ok()
    # (2) raises of the part parsers
    dp = prog.module("datapath")
    n_part = 0
    for f in prog.all_functions():
        if f.module is not dp or f.qualname == pp.qualname:
            continue
        if not (f.cls is None or f.cls.name != "DataPath" or f.name in ("__init__", "from_part_specs")):
            continue
        for x in ast.walk(f.node):
            if isinstance(x, ast.Raise) and x.exc is not None:
                q, name = caught(f.module, x.exc)
                if name is None:
                    continue
                n_part += 1
                if q:
                    r.instances.append({"part parser raise": f"{f.qualname}: {norm(x)[:80]}", "swallowed as": q})
                    r.fail(Finding("R-SWALLOW", f"R-SWALLOW|{f.qualname}|{name}", f"{f.file}:{x.lineno}",
                                   f"`{norm(x)[:80]}` in {f.qualname} rejects a malformed path part with {name}, which the condition parser's probe swallows "
                                   f"(`except {q.split('.')[-1]}`): a malformed path given as a condition argument is accepted as a literal", []))
    r.instances.append({"part parser raises examined": n_part})
    if n_part:
        r.ok()
    return r


def rule_popuse(ctx):
    """Every argument the part parser takes out of the spec (`spec.pop("name", ..)`) without first
    looking at the part type must reach the part it builds on every path; an argument that is
    popped for all part types but handed only to one of them is silently dropped for the others
    (instead of being rejected as an unknown argument of that part type)."""
    from ..anchors import part_parser
    prog = ctx.prog
    r = RuleResult("R-POPUSE", floor=3)
    f = part_parser(prog)
    pops = []
    for st in f.node.body:
        if isinstance(st, ast.Assign) and len(st.targets) == 1 and isinstance(st.targets[0], ast.Name) and isinstance(st.value, ast.Call) \
                and isinstance(st.value.func, ast.Attribute) and st.value.func.attr == "pop" and st.value.args and isinstance(st.value.args[0], ast.Constant):
            pops.append((st.targets[0].id, st.value.args[0].value, st))
    rets = [n for n in ast.walk(f.node) if isinstance(n, ast.Return) and n.value is not None]
    assigns = [n for n in ast.walk(f.node) if isinstance(n, (ast.Assign, ast.AugAssign))]

    def derived(v):
        names = {v}
        changed = True
        while changed:
            changed = False
            for a in assigns:
                val = a.value
                if any(isinstance(x, ast.Name) and x.id in names for x in ast.walk(val)):
                    for t in (a.targets if isinstance(a, ast.Assign) else [a.target]):
                        for x in ast.walk(t):
                            if isinstance(x, ast.Name) and x.id not in names:
                                names.add(x.id)
                                changed = True
        return names
    for var, key, st in pops:
        if key in ("type",):
            continue
        d = derived(var)
        used_in = [any(isinstance(x, ast.Name) and x.id in d for x in ast.walk(rt.value)) for rt in rets]
        tested = any(isinstance(n, (ast.If, ast.While)) and any(isinstance(x, ast.Name) and x.id in d for x in ast.walk(n.test)) and any(isinstance(y, ast.Raise) for y in ast.walk(n)) for n in ast.walk(f.node))
        inst = {"argument": key, "bound to": var, "reaches": f"{sum(used_in)} of {len(rets)} returns"}
        r.instances.append(inst)
        if rets and all(used_in):
            r.ok()
        elif rets and any(used_in):
            bad = next(rt for rt, u in zip(rets, used_in) if not u)
            r.fail(Finding("R-POPUSE", f"R-POPUSE|{f.qualname}|{key}", f"{f.file}:{st.lineno}",
                           f"the part argument `{key}` is taken out of the spec for every part type (`{norm(st)[:70]}`) but `{norm(bad)[:60]}` builds a part without it: "
                           f"for that part type the argument is silently dropped instead of being rejected as unknown", []))
        else:
            r.undecided.append(inst)
    if len(pops) < 3:
        raise AnalysisError("part parser: fewer than 3 unconditional `spec.pop(<name>)` arguments found")
    return r


def rule_precoerce(ctx):
    """An argument value may be a data-path spec (a mapping) or absent (None).  Whatever the condition
    parser does to argument values *before* it probes them for path specs must let mappings (and None)
    through: a table lookup keyed by the raw argument (type-name conversion) raises TypeError
    (unhashable) for a mapping, so a path-valued argument never reaches the coercion - the spec form of
    e.g. `Value.dtype.equal_to(DataPath("b").dtype())` cannot be parsed."""
    from ..anchors import condition_parser, path_parser
    prog = ctx.prog
    r = RuleResult("R-PRECOERCE", floor=1)
    f = condition_parser(prog)
    pp = path_parser(prog)
    probes = [n for n in ast.walk(f.node) if isinstance(n, ast.Call) and isinstance(n.func, ast.Attribute) and n.func.attr == pp.name and "DataPath" in norm(n.func.value)]
    helper_probe = None
    if not probes:
        for g in helper_closure(prog, prog.functions.get(f.qualname, f))[1:]:
            if any(isinstance(n, ast.Call) and isinstance(n.func, ast.Attribute) and n.func.attr == pp.name for n in ast.walk(g.node)):
                helper_probe = next((n for n in ast.walk(f.node) if isinstance(n, ast.Call) and norm(n.func).split(".")[-1] == g.name), None)
    first_probe_line = min([p_.lineno for p_ in probes] + ([helper_probe.lineno] if helper_probe is not None else []) or [10 ** 9])
    # the argument variable: the value of the single-item spec mapping
    argvar = None
    for n in ast.walk(f.node):
        if isinstance(n, ast.Assign) and isinstance(n.targets[0], ast.Tuple) and len(n.targets[0].elts) == 2 and "items()" in norm(n.value):
            argvar = norm(n.targets[0].elts[1])
    inst = {"argument variable": argvar, "first path probe at line": first_probe_line if first_probe_line < 10 ** 9 else None}
    r.instances.append(inst)
    if argvar is None or first_probe_line == 10 ** 9:
        r.undecided.append(inst)
        return r
    unparse = lambda e: " ".join(ast.unparse(e).split())

    def check_in(fn, argname, before_line, table_pred):
        for n in ast.walk(fn.node):
            if not (isinstance(n, ast.Subscript) and isinstance(n.ctx, ast.Load) and isinstance(n.value, ast.Name) and table_pred(n.value.id) and n.lineno < before_line):
                continue
            # the key is the argument, or an element of it bound by an enclosing comprehension / loop over it
            key_names = {x.id for x in ast.walk(n.slice) if isinstance(x, ast.Name)}
            elem_of_arg = set()
            for p_ in _parents(n):
                if isinstance(p_, (ast.ListComp, ast.GeneratorExp, ast.SetComp)):
                    for g in p_.generators:
                        if norm(g.iter) == argname:
                            elem_of_arg |= {x.id for x in ast.walk(g.target) if isinstance(x, ast.Name)}
                if isinstance(p_, ast.For) and norm(p_.iter) in (argname, f"enumerate({argname})"):
                    elem_of_arg |= {x.id for x in ast.walk(p_.target) if isinstance(x, ast.Name)}
            subjects = (key_names & {argname}) | (key_names & elem_of_arg)
            if not subjects:
                continue
            facts = facts_at(prog, fn, n, unparse)
            inst = {"lookup": f"{fn.qualname}: {norm(n)[:80]}", "keyed by": sorted(subjects), "under": sorted(facts)[:6]}
            r.instances.append(inst)
            ok = True
            for v in subjects:
                excl = any(ft.startswith("not ") and (f"isinstance({v}, dict)" in ft or f"isinstance({v}, (dict" in ft) for ft in facts)
                pos = any(not ft.startswith("not ") and ft.startswith(f"isinstance({v}, ") and "dict" not in ft for ft in facts)
                if not (excl or pos):
                    ok = False
            if ok:
                r.ok()
            else:
                r.fail(Finding("R-PRECOERCE", f"R-PRECOERCE|{fn.qualname}|{norm(n)[:50]}", f"{fn.file}:{n.lineno}",
                               f"`{norm(n)[:80]}` looks the raw argument ({sorted(subjects)}) up in a table before the data-path coercion, with no guard letting a mapping through: "
                               f"a path-spec argument ({{'path...': [..]}}) raises TypeError (unhashable) here, so e.g. `value.dtype.equal_to: {{path.dtype: [b]}}` cannot be written as a spec", []))
    check_in(f, argvar, first_probe_line, lambda nm: nm.isupper())
    # helpers that receive the argument before the probe (not inlinable ones stay calls)
    for c in ast.walk(f.node):
        if isinstance(c, ast.Call) and c.lineno < first_probe_line and isinstance(c.func, ast.Name) and c.func.id in f.module.functions and c.func.id.startswith("_"):
            h = f.module.functions[c.func.id]
            for pos, a in enumerate(c.args):
                if norm(a) == argvar and pos < len(h.params):
                    tables = {h.params[k].name for k, b in enumerate(c.args) if isinstance(b, ast.Name) and b.id.isupper() and k < len(h.params)}
                    check_in(h, h.params[pos].name, 10 ** 9, lambda nm, tables=tables: nm.isupper() or nm in tables)
    return r


def rule_eqwrite(ctx):
    """What path equality compares, the part-spec writer must look at - to write it or to refuse:
    a field that `DataPath.__eq__` reads and `to_part_specs` never consults is lost silently, and the
    rebuilt path differs from the original (e.g. a path built from a mapping spec is not concrete, its
    all-primitive serialisation rebuilds a concrete one; a `.length()` modifier disappears)."""
    from .eq import compared_fields
    prog = ctx.prog
    r = RuleResult("R-EQWRITE", floor=3)
    dp = prog.cls("datapath.DataPath")
    eq = dp.lookup_method("__eq__")
    w = dp.lookup_method("to_part_specs")
    if eq is None or w is None:
        raise AnalysisError("DataPath.__eq__ / to_part_specs not found")
    comp = sorted({x.lstrip("_") for x in compared_fields(prog, dp, eq)})
    reads = set()
    for g in helper_closure(prog, w):
        for n in ast.walk(g.node):
            if isinstance(n, ast.Attribute) and isinstance(n.value, ast.Name) and n.value.id == "self":
                reads.add(n.attr.lstrip("_"))
    # simplify() is part of the writer (public, so not in the private-helper closure)
    for n in ast.walk(w.node):
        if isinstance(n, ast.Call) and isinstance(n.func, ast.Attribute) and isinstance(n.func.value, ast.Name) and n.func.value.id == "self":
            m = dp.lookup_method(n.func.attr)
            if m is not None:
                for x in ast.walk(m.node):
                    if isinstance(x, ast.Attribute) and isinstance(x.value, ast.Name) and x.value.id == "self":
                        reads.add(x.attr.lstrip("_"))
    for fld in comp:
        inst = {"compared by DataPath.__eq__": fld, "consulted by to_part_specs": fld.lstrip("_") in reads}
        r.instances.append(inst)
        if fld.lstrip("_") in reads:
            r.ok()
        else:
            r.fail(Finding("R-EQWRITE", f"R-EQWRITE|datapath.DataPath.to_part_specs|{fld}", f"{w.file}:{w.node.lineno}",
                           f"`DataPath.__eq__` compares `{fld}` but `to_part_specs` never looks at it: a path that differs from another only there is serialised to the same specs, "
                           f"so the rebuilt path is not equal to the original / selects or reads differently (neither written nor refused)", []))
    return r


def rule_reroot(ctx):
    """Re-rooting a rule under a root path must re-root everything in it that addresses the document:
    its path *and* the data-path arguments of its condition, which RuleTest resolves against the whole
    validated document (`source_data=self.data`)."""
    prog = ctx.prog
    r = RuleResult("R-REROOT", floor=1)
    f = prog.flat("schema.Schema.add_schema")
    loop = next((n for n in ast.walk(f.node) if isinstance(n, ast.For)), None)
    if loop is None:
        r.undecided.append({"what": "loop over the added rules not found"})
        r.instances.append({"add_schema": "no loop"})
        return r
    var = _target_names(loop.target)[-1]
    ctor = [n for n in ast.walk(loop) if isinstance(n, ast.Call) and norm(n.func) == "Rule"]
    whole_doc = any(isinstance(n, ast.keyword) and n.arg == "source_data" and norm(expand_aliases(g, n.value)) == "self.data"
                    for g in [prog.flat("rules.RuleTest.__init__")] + [prog.flat(m.qualname) for m in prog.cls("rules.RuleTest").methods.values()] for n in ast.walk(g.node))
    for c in ctor:
        kws = {k.arg: k.value for k in c.keywords if k.arg}
        cond = kws.get("condition")
        inst = {"re-rooted rule": norm(c)[:140], "condition": norm(cond) if cond is not None else None, "path arguments resolved against the whole document": whole_doc}
        r.instances.append(inst)
        if cond is None:
            r.undecided.append(inst)
        elif norm(cond) == f"{var}.condition" and whole_doc:
            r.fail(Finding("R-REROOT", "R-REROOT|schema.Schema.add_schema|condition passed unchanged", f"{f.file}:{c.lineno}",
                           f"`{norm(c)[:100]}`: the added rule's condition is handed on unchanged while its path is re-rooted; a data-path argument in it (`value.equal_to: {{path: [b]}}`) "
                           f"is still resolved from the top of the validated document instead of from the root path", []))
        else:
            r.ok()
    if not ctor:
        r.instances.append({"add_schema": "no Rule(...) construction in the loop"})
        r.undecided.append({"what": "re-rooted rule construction not recognised"})
    return r


def rule_arity(ctx):
    """A callable that takes no argument must not be handed one silently: the parser either builds the
    condition (no argument given) or rejects the spec."""
    from ..anchors import condition_parser
    from .sig import SigPath
    prog = ctx.prog
    r = RuleResult("R-ARITY", floor=1)
    f = condition_parser(prog)
    p = SigPath(prog, f, {"POSITIONAL_OR_KEYWORD": [], "VAR_POSITIONAL": [], "VAR_KEYWORD": []})
    if not p.bound:
        raise AnalysisError("condition parser: dispatch on get_func_args_by_kind(..) not found")
    stmts = p.after_binding()
    warns = [n for st in stmts for n in ast.walk(st) if isinstance(n, ast.Call) and norm(n.func) in ("warnings.warn", "warn")]
    calls = [n for st in stmts for n in ast.walk(st) if isinstance(n, ast.Call) and p.subject is not None and norm(n.func) == norm(p.subject)]
    inst = {"no-argument signature: constructor calls": [norm(c) for c in calls], "warnings": [norm(w)[:80] for w in warns], "rejects": p.raised is not None}
    r.instances.append(inst)
    if warns and calls and p.raised is None:
        w = warns[0]
        r.fail(Finding("R-ARITY", "R-ARITY|conditions.ConditionLike.from_spec|argument of a no-argument callable ignored", f"{f.file}:{w.lineno}",
                       f"for a callable without parameters an argument in the spec is only warned about (`{norm(w)[:70]}`) and then ignored: "
                       f"`{{'value.truthy': 5}}` is accepted as `Value.truthy()` instead of being rejected as wrong arity", []))
    elif calls:
        r.ok()
    else:
        r.undecided.append(inst)
    return r
