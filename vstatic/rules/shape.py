"""Recognised-form rules (DESIGN 3/E6): R-ONCE, R-TT, R-OPS, R-PREPROC, R-CHAIN, R-PARTAND.

Policy: an expression that stays inside the recognised vocabulary and differs from the
oracle is a violation; an expression outside the vocabulary is *undecided* (listed in the
evidence, never an alarm)."""

from __future__ import annotations

import ast
import copy
import itertools

from .. import AnalysisError
from ..finite import AttrObj, ConstEval, Undecidable
from ..anchors import condition_parser, condition_writer, path_parser, filter_hook_name, filter_impl
from ..program import FuncInfo, norm, head
from ..report import Finding, RuleResult

INF = 10 ** 6


# ------------------------------------------------------------------------------------------
# helpers
# ------------------------------------------------------------------------------------------
class Rename(ast.NodeTransformer):
    def __init__(self, mapping):
        self.mapping = mapping

    def visit_Name(self, node):
        if node.id in self.mapping:
            return ast.copy_location(ast.Name(id=self.mapping[node.id], ctx=node.ctx), node)
        return node


def canon(expr, mapping=None):
    """Canonical text: given renames applied, comprehension variables renamed positionally,
    comparisons oriented, double negations and `not (a < b)` folded."""
    e = copy.deepcopy(expr)
    if mapping:
        e = Rename(mapping).visit(e)
    counter = itertools.count()

    class Comp(ast.NodeTransformer):
        def _do(self, node):
            ren = {}
            for g in node.generators:
                for n in ast.walk(g.target):
                    if isinstance(n, ast.Name):
                        ren[n.id] = f"_v{next(counter)}"
            node = Rename(ren).visit(node)
            self.generic_visit(node)
            return node

        visit_ListComp = visit_SetComp = visit_GeneratorExp = visit_DictComp = _do

    e = Comp().visit(e)

    class Norm(ast.NodeTransformer):
        def visit_UnaryOp(self, node):
            self.generic_visit(node)
            if isinstance(node.op, ast.Not) and isinstance(node.operand, ast.Compare) and len(node.operand.ops) == 1:
                inv = {ast.Lt: ast.GtE, ast.GtE: ast.Lt, ast.Gt: ast.LtE, ast.LtE: ast.Gt, ast.Eq: ast.NotEq, ast.NotEq: ast.Eq,
                       ast.In: ast.NotIn, ast.NotIn: ast.In, ast.Is: ast.IsNot, ast.IsNot: ast.Is}
                op = type(node.operand.ops[0])
                if op in inv:
                    return ast.Compare(left=node.operand.left, ops=[inv[op]()], comparators=node.operand.comparators)
            return node

        def visit_Call(self, node):
            self.generic_visit(node)
            if isinstance(node.func, ast.Attribute) and isinstance(node.func.value, ast.Name) and node.func.value.id == "operator" and len(node.args) == 2:
                ops = {"lt": ast.Lt, "le": ast.LtE, "gt": ast.Gt, "ge": ast.GtE, "eq": ast.Eq, "ne": ast.NotEq, "contains": None}
                if node.func.attr in ops and ops[node.func.attr]:
                    return ast.Compare(left=node.args[0], ops=[ops[node.func.attr]()], comparators=[node.args[1]])
            if isinstance(node.func, ast.Name) and node.func.id == "bool" and len(node.args) == 1:
                return ast.UnaryOp(op=ast.Not(), operand=ast.UnaryOp(op=ast.Not(), operand=node.args[0]))
            return node

        def visit_Compare(self, node):
            self.generic_visit(node)
            if len(node.ops) == 1:
                flip = {ast.Gt: ast.Lt, ast.GtE: ast.LtE}
                op = type(node.ops[0])
                # orient: X (the item) on the left for ordering comparisons
                r = node.comparators[0]
                if isinstance(r, ast.Name) and r.id == "X" and not (isinstance(node.left, ast.Name) and node.left.id == "X"):
                    sw = {ast.Lt: ast.Gt, ast.Gt: ast.Lt, ast.LtE: ast.GtE, ast.GtE: ast.LtE, ast.Eq: ast.Eq, ast.NotEq: ast.NotEq}
                    if op in sw:
                        return ast.Compare(left=r, ops=[sw[op]()], comparators=[node.left])
            return node

    e = Norm().visit(e)
    e = Norm().visit(e)
    ast.fix_missing_locations(e)
    return " ".join(ast.unparse(e).split())


VOCAB_CALLS = {"any", "all", "sum", "set", "isinstance", "range", "abs", "len", "bool", "list", "tuple", "sorted", "frozenset"}


def in_vocabulary(expr, extra_calls=()):
    for n in ast.walk(expr):
        if isinstance(n, ast.Call):
            if isinstance(n.func, ast.Name) and (n.func.id in VOCAB_CALLS or n.func.id in extra_calls):
                if n.func.id == "len":
                    return False
                continue
            if isinstance(n.func, ast.Attribute) and n.func.attr in ("keys", "values", "items") and not n.args:
                continue
            return False
        if isinstance(n, (ast.Lambda, ast.IfExp, ast.Dict, ast.DictComp, ast.Subscript, ast.Starred, ast.JoinedStr, ast.Await, ast.Yield)):
            return False
    return True


def single_return(func: FuncInfo):
    body = [s for s in func.node.body if not (isinstance(s, ast.Expr) and isinstance(s.value, ast.Constant))]
    if len(body) == 1 and isinstance(body[0], ast.Return) and body[0].value is not None:
        return body[0].value
    # refusals first (`if <test>: raise ...`), then the one return: the returned expression is still the meaning
    if len(body) > 1 and isinstance(body[-1], ast.Return) and body[-1].value is not None \
            and all(isinstance(s, ast.If) and not s.orelse and len(s.body) >= 1 and isinstance(s.body[-1], ast.Raise)
                    and not any(isinstance(x, (ast.Return, ast.Assign, ast.AugAssign)) for x in ast.walk(s)) for s in body[:-1]):
        return body[-1].value
    return None


def inline_helpers(expr, module, depth=2):
    """Inline calls of single-return helper functions of the same module."""
    if depth == 0:
        return expr

    class Inl(ast.NodeTransformer):
        def visit_Call(self, node):
            self.generic_visit(node)
            if isinstance(node.func, ast.Name) and node.func.id in module.functions and node.func.id.startswith("_"):
                h = module.functions[node.func.id]
                rv = single_return(h)
                if rv is not None and len(node.args) == len(h.params) and not node.keywords:
                    mapping = {}
                    body = copy.deepcopy(rv)

                    class Sub(ast.NodeTransformer):
                        def visit_Name(self, n):
                            for p, a in zip(h.params, node.args):
                                if n.id == p.name:
                                    return copy.deepcopy(a)
                            return n
                    return inline_helpers(Sub().visit(body), module, depth - 1)
            return node
    return Inl().visit(copy.deepcopy(expr))


def _guard_continue_to_else(stmts):
    """Loop-body statement list in which `if T: ...; continue` followed by REST is rewritten as
    `if T: ... else: REST` (the same paths, without the jump)."""
    out = []
    for i, st in enumerate(stmts):
        if isinstance(st, ast.If) and not st.orelse and st.body and isinstance(st.body[-1], ast.Continue) \
                and not any(isinstance(n, (ast.Break, ast.Continue, ast.Return)) for b in st.body[:-1] for n in ast.walk(b)):
            new = ast.If(test=st.test, body=list(st.body[:-1]) or [ast.Pass()], orelse=_guard_continue_to_else(stmts[i + 1:]))
            out.append(ast.copy_location(new, st))
            return out
        out.append(st)
    return out


def count_appends(stmts, name, loop_body=False):
    """(min, max) number of `name.append(...)` executed along the paths through stmts, and
    whether a break / continue / return occurs.  With loop_body, stmts is the whole body of the
    loop the count is per iteration of, and guard-clause `continue`s are read as if/else."""
    if loop_body:
        stmts = _guard_continue_to_else(stmts)
    lo = hi = 0
    jumps = []
    for st in stmts:
        a, b, j = _count_stmt(st, name)
        lo += a
        hi = min(INF, hi + b)
        jumps += j
    return lo, hi, jumps


def _is_append(st, name):
    return (isinstance(st, ast.Expr) and isinstance(st.value, ast.Call) and isinstance(st.value.func, ast.Attribute)
            and st.value.func.attr == "append" and isinstance(st.value.func.value, ast.Name) and st.value.func.value.id == name)


def _count_stmt(st, name):
    if _is_append(st, name):
        return 1, 1, []
    if isinstance(st, (ast.Break, ast.Continue, ast.Return)):
        return 0, 0, [st]
    if isinstance(st, ast.If):
        a1, b1, j1 = count_appends(st.body, name)
        a2, b2, j2 = count_appends(st.orelse, name)
        return min(a1, a2), max(b1, b2), j1 + j2
    if isinstance(st, ast.Try):
        a, b, j = count_appends(st.body, name)
        ae, be, je = count_appends(st.orelse, name)
        lo, hi = a + ae, b + be
        jumps = j + je
        for h in st.handlers:
            ah, bh, jh = count_appends(h.body, name)
            lo = min(lo, ah)
            hi = max(hi, b + bh)
            jumps += jh
        af, bf, jf = count_appends(st.finalbody, name)
        return lo + af, min(INF, hi + bf), jumps + jf
    if isinstance(st, (ast.For, ast.While)):
        a, b, j = count_appends(st.body, name)
        return 0, (INF if b else 0), [x for x in j if isinstance(x, ast.Return)]
    if isinstance(st, ast.With):
        return count_appends(st.body, name)
    # any other statement mentioning name.append / name mutations
    for n in ast.walk(st):
        if isinstance(n, ast.Call) and isinstance(n.func, ast.Attribute) and isinstance(n.func.value, ast.Name) and n.func.value.id == name and n.func.attr in ("append", "extend", "insert", "pop", "remove", "clear"):
            return 0, INF, []
        if isinstance(n, ast.AugAssign) and isinstance(n.target, ast.Name) and n.target.id == name:
            return 0, INF, []
    return 0, 0, []


# ------------------------------------------------------------------------------------------
# C01
# ------------------------------------------------------------------------------------------
def rule_once_c01(ctx):
    prog = ctx.prog
    r = RuleResult("R-ONCE/C01", floor=4)
    f = filter_impl(prog, "conditions.Condition")
    where = f"{f.file}:{f.node.lineno}"
    # the lists handed to FilteredData(...)
    ret = None
    for n in ast.walk(f.node):
        if isinstance(n, ast.Return) and isinstance(n.value, ast.Call) and ast.unparse(n.value.func).endswith("FilteredData"):
            ret = n.value
    if ret is None:
        raise AnalysisError("Condition._filter: `return ...FilteredData(...)` not found")
    empties = {st.targets[0].id for st in f.node.body if isinstance(st, ast.Assign) and isinstance(st.targets[0], ast.Name) and isinstance(st.value, ast.List) and not st.value.elts}
    lists = [a.id for a in ret.args if isinstance(a, ast.Name) and a.id in empties] + [k.value.id for k in ret.keywords if isinstance(k.value, ast.Name) and k.value.id in empties]
    loops = [st for st in f.node.body if isinstance(st, ast.For)]
    if len(loops) != 1 or len(lists) < 4:
        raise AnalysisError(f"Condition._filter: expected one item loop and >= 4 per-item lists, found {len(loops)} loop(s), lists {lists}")
    loop = loops[0]
    it = ast.unparse(loop.iter)
    inst = {"item loop": head(loop)}
    r.instances.append(inst)
    if not (it.startswith("getattr(data, self.DATUM_TYPE.value)()") and it == "getattr(data, self.DATUM_TYPE.value)()"):
        r.fail(Finding("R-ONCE/C01", "R-ONCE|conditions.Condition._filter|loop-iter", f"{f.file}:{loop.lineno}",
                       f"the item loop iterates `{it}` instead of every key / value of the data (getattr(data, self.DATUM_TYPE.value)()): items may be skipped, repeated or reordered", []))
    else:
        r.ok()
    for name in lists:
        lo, hi, jumps = count_appends(loop.body, name, loop_body=True)
        inst = {"list": name, "appends_per_item": [lo, hi if hi < INF else "unbounded"], "jumps": [head(j) for j in jumps]}
        r.instances.append(inst)
        if (lo, hi) != (1, 1):
            r.fail(Finding("R-ONCE/C01", f"R-ONCE|conditions.Condition._filter|{name}", f"{f.file}:{loop.lineno}",
                           f"`{name}` (handed to FilteredData) is appended to between {lo} and {hi if hi < INF else 'many'} times per item instead of exactly once on every path through the item loop: "
                           f"the filter no longer yields one boolean per item in item order", []))
        elif jumps:
            r.fail(Finding("R-ONCE/C01", f"R-ONCE|conditions.Condition._filter|{name}|jump", f"{f.file}:{jumps[0].lineno}",
                           f"`{head(jumps[0])}` inside the item loop: an item can leave the loop body without its flags being recorded", []))
        else:
            r.ok()
    # what is recorded for an item is computed for that item: every variable appended to a per-item list
    # is (re)assigned on every path through the loop body before it is appended
    def definitely(stmts, have):
        """names definitely assigned after stmts (None when the block never completes); records appends"""
        have = set(have)
        for st in stmts:
            for n in ast.walk(st) if not isinstance(st, (ast.If, ast.Try, ast.For, ast.While, ast.With)) else []:
                if isinstance(n, ast.Call) and isinstance(n.func, ast.Attribute) and n.func.attr == "append" and isinstance(n.func.value, ast.Name) and n.func.value.id in lists \
                        and n.args and isinstance(n.args[0], ast.Name):
                    recorded.append((n.func.value.id, n.args[0].id, n.args[0].id in have, st))
            if isinstance(st, ast.Assign):
                for t in st.targets:
                    for x in ast.walk(t):
                        if isinstance(x, ast.Name) and isinstance(x.ctx, ast.Store):
                            have.add(x.id)
            elif isinstance(st, ast.If):
                a = definitely(st.body, have)
                b = definitely(st.orelse, have)
                if a is None and b is None:
                    return None
                have = (a if b is None else b if a is None else a & b)
            elif isinstance(st, ast.Try):
                a = definitely(st.body, have)
                if a is not None and st.orelse:
                    a = definitely(st.orelse, a)
                outs = [a] if a is not None else []
                for h in st.handlers:
                    hb = definitely(h.body, have)
                    if hb is not None:
                        outs.append(hb)
                if not outs:
                    return None
                have = set.intersection(*outs)
                if st.finalbody:
                    fb = definitely(st.finalbody, have)
                    have = fb if fb is not None else have
            elif isinstance(st, (ast.For, ast.While, ast.With)):
                inner = definitely(st.body, have)
                if isinstance(st, ast.With) and inner is not None:
                    have = inner
            elif isinstance(st, (ast.Continue, ast.Break, ast.Return, ast.Raise)):
                return None
        return have
    recorded = []
    definitely(loop.body, {x.id for x in ast.walk(loop.target) if isinstance(x, ast.Name)})
    for lst, var, fresh, st in recorded:
        inst = {"list": lst, "records": var, "assigned within the iteration on every path": fresh}
        r.instances.append(inst)
        if fresh:
            r.ok()
        else:
            r.fail(Finding("R-ONCE/C01", f"R-ONCE|conditions.Condition._filter|{lst}|stale:{var}", f"{f.file}:{st.lineno}",
                           f"`{lst}.append({var})`: `{var}` is not assigned on every path through the item loop before it is recorded, so an item can inherit the flag "
                           f"computed for an earlier item (e.g. once one item made the callable raise, every later item is recorded as an error)", []))
    # what is recorded for an item does not come from what was recorded for another item: no appended value reads a
    # per-item list (directly or through a local computed from one), e.g. a memo that re-uses the flags of an equal datum
    derived = set()
    changed = True
    while changed:
        changed = False
        for n in ast.walk(loop):
            if isinstance(n, ast.Assign):
                reads = {x.id for x in ast.walk(n.value) if isinstance(x, ast.Name)}
                if reads & (set(lists) | derived):
                    for t in n.targets:
                        for x in ast.walk(t):
                            if isinstance(x, ast.Name) and isinstance(x.ctx, ast.Store) and x.id not in derived:
                                derived.add(x.id)
                                changed = True
    for n in ast.walk(loop):
        if isinstance(n, ast.Call) and isinstance(n.func, ast.Attribute) and n.func.attr == "append" and isinstance(n.func.value, ast.Name) and n.func.value.id in lists and n.args:
            reads = {x.id for x in ast.walk(n.args[0]) if isinstance(x, ast.Name)}
            src = sorted(reads & (set(lists) | derived))
            inst = {"list": n.func.value.id, "records": norm(n.args[0]), "reads earlier records through": src}
            r.instances.append(inst)
            if src:
                r.fail(Finding("R-ONCE/C01", f"R-ONCE|conditions.Condition._filter|{n.func.value.id}|copied:{norm(n.args[0])}", f"{f.file}:{n.lineno}",
                               f"`{norm(n)}`: the value recorded for this item is read from the records of earlier items ({src}), not computed from the item: "
                               f"items that merely compare equal (1, True, 1.0) get each other's outcome", []))
            else:
                r.ok()
    # nothing after the loop touches the lists before they are handed over
    idx = f.node.body.index(loop)
    for st in f.node.body[idx + 1:]:
        for name in lists:
            lo, hi, _ = _count_stmt(st, name)
            if hi:
                r.fail(Finding("R-ONCE/C01", f"R-ONCE|conditions.Condition._filter|{name}|after", f"{f.file}:{st.lineno}",
                               f"`{name}` is modified after the item loop (`{head(st)}`)", []))
    return r


def _truth_table(prog, module, expr, names):
    out = {}
    for vals in itertools.product([False, True], repeat=len(names)):
        env = dict(zip(names, vals))
        out[vals] = bool(ConstEval(prog, module, env).ev(expr))
    return out


def rule_tt_c01(ctx):
    prog = ctx.prog
    r = RuleResult("R-TT/C01", floor=4)
    init = prog.flat("data.FilteredData.__init__")
    where = f"{init.file}:{init.node.lineno}"
    comp = None
    for n in ast.walk(init.node):
        if isinstance(n, ast.Assign) and isinstance(n.targets[0], ast.Attribute) and n.targets[0].attr == "result":
            comp = n.value
    if comp is None:
        raise AnalysisError("FilteredData.__init__: assignment of self.result not found")
    inst = {"expr": norm(comp)}
    r.instances.append(inst)
    decided = False
    if isinstance(comp, ast.ListComp) and len(comp.generators) == 1 and not comp.generators[0].ifs:
        g = comp.generators[0]
        if isinstance(g.iter, ast.Call) and isinstance(g.iter.func, ast.Name) and g.iter.func.id == "zip" and isinstance(g.target, ast.Tuple):
            srcs = sorted(ast.unparse(a) for a in g.iter.args)
            names = [t.id for t in g.target.elts if isinstance(t, ast.Name)]
            want = sorted(["self.pre_processor_error", "self.callable_error", "self.callable_false"])
            alt = sorted(["pre_processor_error", "callable_error", "callable_false"])
            if len(names) == len(g.target.elts):
                try:
                    tt = _truth_table(prog, init.module, comp.elt, names)
                    decided = True
                    bad_src = srcs not in (want, alt)
                    bad_tt = any(v != (not any(k)) for k, v in tt.items()) or len(names) != 3
                    inst["truth_table"] = {"".join("T" if b else "F" for b in k): v for k, v in tt.items()}
                    if bad_src:
                        r.fail(Finding("R-TT/C01", "R-TT|data.FilteredData.__init__|result-sources", where,
                                       f"self.result is computed from {srcs}, not from the three per-item flag lists (pre-processor error, callable error, callable false)", []))
                    elif bad_tt:
                        r.fail(Finding("R-TT/C01", "R-TT|data.FilteredData.__init__|result-formula", where,
                                       f"the per-item result `{norm(comp.elt)}` is not `not (pre_processor_error or callable_error or callable_false)`: truth table {inst['truth_table']}", []))
                    else:
                        r.ok()
                except Undecidable:
                    pass
    if not decided:
        inst["verdict"] = "undecided (not a comprehension over zip of the three flag lists)"
        r.undecided.append(inst)
    # partition views
    fdl = prog.cls("data.FilteredDataLike")
    expect = {
        "data": "[_v1 for (_v0, _v1) in enumerate(self.source.values()) if self.result[_v0]]",
        "keys": "[_v1 for (_v0, _v1) in enumerate(self.source.keys()) if self.result[_v0]]",
        "failure_indices": "[_v0 for (_v0, _v1) in enumerate(self.result) if not _v1]",
    }
    for name, exp in expect.items():
        m = fdl.lookup_method(name)
        if m is None:
            raise AnalysisError(f"FilteredDataLike.{name} not found")
        rv = single_return(m)
        inst = {"view": name, "expr": norm(rv) if rv is not None else None}
        r.instances.append(inst)
        if rv is None or not isinstance(rv, ast.ListComp):
            inst["verdict"] = "undecided (not a single list comprehension)"
            r.undecided.append(inst)
            continue
        got = canon(rv)
        alts = {exp, exp.replace("(_v0, _v1)", "_v0, _v1")}
        if got in alts or got.replace("(_v0, _v1)", "_v0, _v1") in {a.replace("(_v0, _v1)", "_v0, _v1") for a in alts}:
            r.ok()
        elif len(rv.generators) == 1 and isinstance(rv.generators[0].iter, ast.Call) and getattr(rv.generators[0].iter.func, "id", "") == "enumerate" and len(rv.generators[0].ifs) == 1:
            r.fail(Finding("R-TT/C01", f"R-TT|data.FilteredDataLike.{name}", f"{m.file}:{m.node.lineno}",
                           f"FilteredDataLike.{name} is `{got}`; the partition induced by the result booleans requires `{exp}`", []))
        else:
            inst["verdict"] = "undecided (unrecognised form)"
            r.undecided.append(inst)
    return r


OPS_ORACLE = {
    "equal_to": "X == value",
    "not_equal_to": "X != value",
    "less_than": "X < value",
    "greater_than": "X > value",
    "less_than_or_equal_to": "X <= value",
    "greater_than_or_equal_to": "X >= value",
    "in_": "X in value",
    "not_in": "X not in value",
    "in_range": "X in range(lower, upper)",
    "not_in_range": "X not in range(lower, upper)",
    "factor_of": "value % X == 0",
    "has_factor": "X % value == 0",
    "keys_contain": "key in X.keys()",
    "keys_contain_any_of": "any((_v0 in X.keys() for _v0 in keys))",
    "keys_contain_all_of": "all((_v0 in X.keys() for _v0 in keys))",
    "keys_contain_N_of": "sum((_v0 in X.keys() for _v0 in keys)) == N",
    "keys_contain_at_least_N_of": "sum((_v0 in X.keys() for _v0 in keys)) >= N",
    "keys_contain_at_most_N_of": "sum((_v0 in X.keys() for _v0 in keys)) <= N",
    "keys_contain_one_of": "keys_contain_N_of(X, 1, keys)",
    "keys_contain_at_least_one_of": "keys_contain_at_least_N_of(X, 1, keys)",
    "keys_contain_at_most_one_of": "keys_contain_at_most_N_of(X, 1, keys)",
    "keys_equal_to": "set(X.keys()) == set(keys)",
    "keys_is_instance": "all((isinstance(_v0, classes) for _v0 in X.keys()))",
    "allowed_keys": "not set(X.keys()) - set(keys)",
    "required_keys": "not set(keys) - set(X.keys())",
    "forbidden_keys": "not set(keys) & set(X.keys())",
    "equal_to_approx": "abs(X - value) < tolerance",
    "truthy": "not not X",
    "falsy": "not X",
    "null": "True",
    "is_instance": "isinstance(X, classes)",
}
def _skeleton(expr):
    """Shape of an expression with operator kinds, operand order and `.keys()` calls abstracted
    away: two expressions with the same skeleton differ only in such details."""
    def rec(n):
        if isinstance(n, ast.Call) and isinstance(n.func, ast.Attribute) and n.func.attr == "keys" and not n.args:
            return rec(n.func.value)
        if isinstance(n, ast.UnaryOp) and isinstance(n.op, ast.Not):
            return rec(n.operand)
        if isinstance(n, ast.Compare):
            return ("cmp", tuple(sorted([repr(rec(n.left))] + [repr(rec(c)) for c in n.comparators])))
        if isinstance(n, ast.BinOp):
            return ("bin", tuple(sorted([repr(rec(n.left)), repr(rec(n.right))])))
        if isinstance(n, ast.Call):
            return ("call", ast.unparse(n.func), tuple(repr(rec(a)) for a in n.args))
        if isinstance(n, ast.GeneratorExp):
            return ("gen", repr(rec(n.elt)), tuple(repr(rec(g.iter)) for g in n.generators))
        if isinstance(n, ast.Name):
            return ("name", n.id)
        if isinstance(n, ast.Constant):
            return ("const", repr(n.value))
        return ("other", type(n).__name__, tuple(repr(rec(c)) for c in ast.iter_child_nodes(n)))
    return rec(expr)


OPS_EQUIV = {
    "allowed_keys": {"set(X.keys()) <= set(keys)", "set(X.keys()).issubset(set(keys))", "set(X.keys()).issubset(keys)"},
    "required_keys": {"set(keys) <= set(X.keys())", "set(X.keys()) >= set(keys)", "set(keys).issubset(set(X.keys()))", "set(keys).issubset(X.keys())"},
    "truthy": {"not not X"},
    "keys_contain_one_of": {"sum((_v0 in X.keys() for _v0 in keys)) == 1"},
    "keys_contain_at_least_one_of": {"sum((_v0 in X.keys() for _v0 in keys)) >= 1", "any((_v0 in X.keys() for _v0 in keys))"},
    "keys_contain_at_most_one_of": {"sum((_v0 in X.keys() for _v0 in keys)) <= 1"},
    "equal_to_approx": {"abs(value - X) < tolerance"},
    "keys_equal_to": {"set(keys) == set(X.keys())"},
    "forbidden_keys": {"not set(X.keys()) & set(keys)"},
    "factor_of": {"0 == value % X"},
    "has_factor": {"0 == X % value"},
}


def rule_ops(ctx):
    prog = ctx.prog
    r = RuleResult("R-OPS", floor=30)
    mod = prog.module("callables")
    sibs = set(mod.functions)
    for name, exp in OPS_ORACLE.items():
        f = mod.functions.get(name)
        inst = {"callable": name, "oracle": exp}
        r.instances.append(inst)
        if f is None:
            r.fail(Finding("R-OPS", f"R-OPS|callables.{name}|missing", "valida/callables.py:1", f"comparison function callables.{name} no longer exists", []))
            continue
        where = f"{f.file}:{f.node.lineno}"
        rv = single_return(f)
        if rv is None:
            if name == "items_contain":
                pass
            inst["verdict"] = "undecided (body is not a single return expression)"
            r.undecided.append(inst)
            continue
        first = f.params[0].name if f.params else None
        rv2 = inline_helpers(rv, mod)
        got = canon(rv2, {first: "X"} if first else None)
        inst["normal_form"] = got
        ok_forms = {exp} | OPS_EQUIV.get(name, set())
        same_shape = False
        try:
            exp_ast = ast.parse(exp, mode="eval").body
            got_ast = ast.parse(got, mode="eval").body
            same_shape = _skeleton(exp_ast) == _skeleton(got_ast)
        except SyntaxError:
            pass
        if got in ok_forms:
            r.ok()
        elif in_vocabulary(rv2, extra_calls=sibs) and same_shape:
            r.fail(Finding("R-OPS", f"R-OPS|callables.{name}", where,
                           f"callables.{name} computes `{got}` (item = X); its documented meaning is `{exp}`", [f"{f.qualname} @ {where}: return {norm(rv)}"]))
        else:
            inst["verdict"] = "undecided (expression outside the recognised vocabulary)"
            r.undecided.append(inst)
    # items_contain: loop form
    f = mod.functions.get("items_contain")
    inst = {"callable": "items_contain", "oracle": "for k, v in items.items(): item[k] != v or KeyError -> False; else True"}
    r.instances.append(inst)
    if f is None:
        r.fail(Finding("R-OPS", "R-OPS|callables.items_contain|missing", "valida/callables.py:1", "callables.items_contain no longer exists", []))
    else:
        txt = " ".join(ast.unparse(f.node).split())
        first = f.params[0].name
        want = (f"for (k, v) in items.items(): try: if {first}[k] != v: return False except KeyError: return False return True")
        body_txt = " ".join(" ".join(ast.unparse(s) for s in f.node.body if not (isinstance(s, ast.Expr) and isinstance(s.value, ast.Constant))).split())
        want2 = want.replace("(k, v)", "k, v")
        if body_txt in (want, want2):
            r.ok()
        else:
            rets = [n for n in ast.walk(f.node) if isinstance(n, ast.Return)]
            consts = [n.value.value for n in rets if isinstance(n.value, ast.Constant)]
            cmps = [n for n in ast.walk(f.node) if isinstance(n, ast.Compare) and any(isinstance(x, ast.Subscript) and isinstance(x.value, ast.Name) and x.value.id == first for x in [n.left] + n.comparators)]
            if len(cmps) == 1 and len(cmps[0].ops) == 1 and not isinstance(cmps[0].ops[0], ast.NotEq) and isinstance(cmps[0]._parent, ast.If) and any(isinstance(x, ast.Return) and isinstance(x.value, ast.Constant) and x.value.value is False for x in cmps[0]._parent.body):
                r.fail(Finding("R-OPS", "R-OPS|callables.items_contain|compare", f"{f.file}:{cmps[0].lineno}",
                               f"items_contain rejects an item when `{norm(cmps[0])}`; its documented meaning is: every given item is present with an equal value (reject when item[k] != v)", []))
            elif len(consts) == len(rets) and all(isinstance(c, bool) for c in consts):
                inst["verdict"] = "undecided (loop form not recognised; all returns are boolean constants)"
                r.undecided.append(inst)
            else:
                r.fail(Finding("R-OPS", "R-OPS|callables.items_contain|returns", f"{f.file}:{f.node.lineno}", "items_contain must return booleans on every path", []))
    # every function in callables.py (public) is in the oracle: a new comparison needs a documented meaning
    for name, fn in mod.functions.items():
        if name.startswith("_") or name in OPS_ORACLE or name == "items_contain":
            continue
        r.instances.append({"callable": name, "verdict": "no oracle entry (new comparison): undecided"})
        r.undecided.append({"callable": name})
    return r


def rule_preproc(ctx):
    prog = ctx.prog
    r = RuleResult("R-PREPROC", floor=7)
    exp = {
        "conditions.Value": ("value", "VALUES", None),
        "conditions.ValueLength": ("value.length", "VALUES", "len"),
        "conditions.ValueDataType": ("value.dtype", "VALUES", "type"),
        "conditions.Key": ("key", "KEYS", None),
        "conditions.KeyLength": ("key.length", "KEYS", "len"),
        "conditions.KeyDataType": ("key.dtype", "KEYS", "type"),
        "conditions.Index": ("index", "KEYS", None),
    }
    for cq, (label, datum, pre) in exp.items():
        c = prog.cls(cq)
        where = f"{c.module.relpath}:{c.node.lineno}"
        lab = c.lookup("js_like_label")[1]
        dt = c.lookup("DATUM_TYPE")[1]
        pp = c.lookup("PRE_PROCESSOR")[1]
        got = (lab.value if isinstance(lab, ast.Constant) else None,
               dt.attr if isinstance(dt, ast.Attribute) else None,
               (pp.id if isinstance(pp, ast.Name) else (None if isinstance(pp, ast.Constant) and pp.value is None else "?")))
        inst = {"class": cq, "label/datum/pre-processor (MRO-resolved)": got, "expected": (label, datum, pre), "mro": [k.name for k in c.mro]}
        r.instances.append(inst)
        if got == (label, datum, pre):
            r.ok()
        else:
            r.fail(Finding("R-PREPROC", f"R-PREPROC|{cq}", where,
                           f"{cq}: MRO-resolved (js_like_label, DATUM_TYPE, PRE_PROCESSOR) = {got}, but its spec label `{label}` means datum {datum} with pre-processor {pre}", []))
    # classproperties point at the right classes
    for parent, prop, child in (("conditions.Value", "length", "ValueLength"), ("conditions.Value", "dtype", "ValueDataType"),
                                ("conditions.Key", "length", "KeyLength"), ("conditions.Key", "dtype", "KeyDataType")):
        c = prog.cls(parent)
        m = c.lookup_method(prop)
        rv = single_return(m) if m else None
        inst = {"classproperty": f"{parent}.{prop}", "returns": norm(rv) if rv is not None else None}
        r.instances.append(inst)
        if m is not None and m.kind == "classproperty" and isinstance(rv, ast.Name) and rv.id == child:
            r.ok()
        else:
            r.fail(Finding("R-PREPROC", f"R-PREPROC|{parent}.{prop}", f"{c.module.relpath}:{c.node.lineno}", f"{parent}.{prop} must be a classproperty returning {child}", []))
    # enum values of FilterDatumType name methods of Data
    e = prog.cls("conditions.FilterDatumType")
    data = prog.cls("data.Data")
    for k, v in e.attrs.items():
        ok = isinstance(v, ast.Constant) and v.value == k.lower() and data.lookup_method(v.value) is not None
        r.instances.append({"FilterDatumType": k, "value": getattr(v, "value", None)})
        if ok:
            m = data.lookup_method(v.value)
            rv = single_return(m)
            want = {"keys": "self._keys", "values": "self._values"}.get(v.value)
            if rv is not None and norm(rv) == want:
                r.ok()
            else:
                r.fail(Finding("R-PREPROC", f"R-PREPROC|data.Data.{v.value}", f"{m.file}:{m.node.lineno}", f"Data.{v.value}() must return {want}", []))
        else:
            r.fail(Finding("R-PREPROC", f"R-PREPROC|FilterDatumType.{k}", f"{e.module.relpath}:{e.node.lineno}", f"FilterDatumType.{k} must be the name of the Data method of the same (lower-cased) name", []))
    return r


# ------------------------------------------------------------------------------------------
# C02
# ------------------------------------------------------------------------------------------
def rule_chain(ctx):
    prog = ctx.prog
    r = RuleResult("R-CHAIN", floor=3)
    like = prog.cls("conditions.ConditionLike")
    fdl = prog.cls("data.FilteredDataLike")
    fs = condition_parser(prog)
    from ..finite import local_tables, ClassRef
    tables = local_tables(prog, fs)
    ops = {"and": ("__and__", "ConditionAnd", "and_", "FilteredDataAnd"), "or": ("__or__", "ConditionOr", "or_", "FilteredDataOr"), "xor": ("__xor__", "ConditionXor", "xor", "FilteredDataXor")}
    for sym, (dunder, ccls, opfn, fcls) in ops.items():
        slots = {}
        c = prog.cls(f"conditions.{ccls}")
        where = f"{c.module.relpath}:{c.node.lineno}"
        v = tables.get("BINARY_OPS", {}).get(sym)
        slots["spec key -> class"] = v.qualname if isinstance(v, ClassRef) else None
        d = like.lookup_method(dunder)
        rv = single_return(d) if d else None
        slots["operator dunder constructs"] = rv.func.id if isinstance(rv, ast.Call) and isinstance(rv.func, ast.Name) else None
        slots["dunder operands"] = [norm(a) for a in rv.args] if isinstance(rv, ast.Call) else None
        fl = c.lookup("FLATTEN_SYMBOL")[1]
        slots["FLATTEN_SYMBOL"] = fl.value if isinstance(fl, ast.Constant) else None
        filt = c.methods.get(filter_hook_name(prog))
        passed = None
        if filt:
            for n in ast.walk(filt.node):
                if isinstance(n, ast.Call) and isinstance(n.func, ast.Attribute) and n.func.attr == filter_hook_name(prog) and len(n.args) >= 2:
                    passed = ast.unparse(n.args[1])
        slots["_filter passes"] = passed
        fd = fdl.lookup_method(dunder)
        rv2 = single_return(fd) if fd else None
        slots["FilteredData dunder constructs"] = rv2.func.id if isinstance(rv2, ast.Call) and isinstance(rv2.func, ast.Name) else None
        slots["FilteredData dunder operands"] = [norm(a) for a in rv2.args] if isinstance(rv2, ast.Call) else None
        fc = prog.cls(f"data.{fcls}")
        init = fc.methods.get("__init__")
        up = None
        if init:
            for n in ast.walk(init.node):
                if isinstance(n, ast.Call) and isinstance(n.func, ast.Attribute) and n.func.attr == "__init__" and len(n.args) == 3:
                    up = ast.unparse(n.args[2])
                    slots["FilteredData init operands"] = [norm(a) for a in n.args[:2]]
        slots["FilteredData passes up"] = up
        ts = fc.lookup("TRUTH_TABLE_SYMBOL")[1]
        slots["TRUTH_TABLE_SYMBOL"] = ts.value if isinstance(ts, ast.Constant) else None
        want = {
            "spec key -> class": f"conditions.{ccls}", "operator dunder constructs": ccls, "dunder operands": ["self", "other"],
            "FLATTEN_SYMBOL": sym, "_filter passes": f"operator.{opfn}", "FilteredData dunder constructs": fcls,
            "FilteredData dunder operands": ["self", "other"], "FilteredData init operands": ["fd1", "fd2"],
            "FilteredData passes up": f"operator.{opfn}", "TRUTH_TABLE_SYMBOL": sym,
        }
        inst = {"operator": sym, "slots": slots}
        r.instances.append(inst)
        bad = {k: (slots.get(k), w) for k, w in want.items() if slots.get(k) != w}
        if bad:
            for k, (g, w) in bad.items():
                r.fail(Finding("R-CHAIN", f"R-CHAIN|{sym}|{k}", where, f"operator chain for `{sym}`: slot '{k}' is {g!r}, expected {w!r} - the combination would not compute the pointwise `{sym}` of its operands", []))
        else:
            r.ok()
    # same-source / element-wise
    bf = filter_impl(prog, "conditions.ConditionBinaryOp")
    inst = {"check": "every child filters the same data object"}
    r.instances.append(inst)
    calls = [n for n in ast.walk(bf.node) if isinstance(n, ast.Call) and isinstance(n.func, ast.Attribute) and n.func.attr == filter_hook_name(prog) and n.args]
    dparam = bf.params[1].name if len(bf.params) > 1 else "data"
    ok = bool(calls) and all(isinstance(cn.args[0], ast.Name) and cn.args[0].id == dparam for cn in calls)
    ok = ok and all(any(k.arg == "source_data" and norm(k.value) == "source_data" for k in cn.keywords) for cn in calls)
    # the receiver of each call iterates over all of self.children (loop or comprehension, unfiltered, no early exit)
    iter_ok = bool(calls)
    for cn in calls:
        recv = cn.func.value
        found = False
        for pnode in [x for x in ast.walk(bf.node) if isinstance(x, (ast.For, ast.GeneratorExp, ast.ListComp))]:
            gens = [(pnode.target, pnode.iter, [])] if isinstance(pnode, ast.For) else [(g.target, g.iter, g.ifs) for g in pnode.generators]
            for tgt, it, ifs in gens:
                if isinstance(recv, ast.Name) and recv.id in [x.id for x in ast.walk(tgt) if isinstance(x, ast.Name)] and any(cn is y for y in ast.walk(pnode)):
                    found = ast.unparse(it) in ("enumerate(self.children)", "self.children") and not ifs
                    if isinstance(pnode, ast.For) and any(isinstance(y, (ast.Break, ast.Continue, ast.Return)) for y in ast.walk(pnode)):
                        found = False
        iter_ok = iter_ok and found
    ok = ok and iter_ok
    if ok:
        r.ok()
    else:
        r.fail(Finding("R-CHAIN", "R-CHAIN|conditions.ConditionBinaryOp._filter|same-data", f"{bf.file}:{bf.node.lineno}",
                       "ConditionBinaryOp._filter must evaluate every child (all of self.children, unfiltered) on the identical `data` and `source_data`", []))
    init = prog.flat("data.FilteredDataBinaryOp.__init__")
    res = None
    for n in ast.walk(init.node):
        if isinstance(n, ast.Assign) and isinstance(n.targets[0], ast.Attribute) and n.targets[0].attr == "result":
            res = n.value
    inst = {"check": "element-wise combination", "expr": norm(res) if res is not None else None}
    r.instances.append(inst)
    if res is not None and canon(res) in ("[binary_op(_v0, _v1) for (_v0, _v1) in zip(fd1.result, fd2.result)]", "[binary_op(_v0, _v1) for _v0, _v1 in zip(fd1.result, fd2.result)]"):
        r.ok()
    elif res is not None and isinstance(res, ast.ListComp):
        r.fail(Finding("R-CHAIN", "R-CHAIN|data.FilteredDataBinaryOp.__init__|result", f"{init.file}:{init.node.lineno}",
                       f"combined result is `{canon(res)}`; pointwise combination requires `[binary_op(i, j) for i, j in zip(fd1.result, fd2.result)]`", []))
    else:
        r.undecided.append(inst)
    return r


def rule_tt_c02(ctx):
    prog = ctx.prog
    r = RuleResult("R-TT/C02", floor=3)
    f = prog.flat("utils.null_condition_binary_check")
    from ..finite import run_function
    inst = {"function": f.qualname}
    r.instances.append(inst)
    if len(f.params) != 2:
        r.undecided.append(inst)
    else:
        a, b = f.params[0].name, f.params[1].name
        bad = []
        try:
            for na, nb in itertools.product([False, True], repeat=2):
                A, B = AttrObj(is_null=na, tag="first"), AttrObj(is_null=nb, tag="second")
                v = run_function(prog, f, {a: A, b: B})
                want = A if (nb and not na) else (B if (na and not nb) else (A if (na and nb) else None))
                okv = (v is A or v is B) if (na and nb) else (v is want)
                inst[f"null={na},{nb}"] = "first" if v is A else ("second" if v is B else repr(v))
                if not okv:
                    bad.append((na, nb))
            # two non-null operands that compare equal are still two operands (a ^ a is not a)
            E1, E2 = AttrObj(is_null=False, tag="same"), AttrObj(is_null=False, tag="same")
            v = run_function(prog, f, {a: E1, b: E2})
            inst["equal non-null operands"] = repr(v) if v is None else "an operand"
            if v is not None:
                bad.append("equal non-null operands")
            if bad:
                r.fail(Finding("R-TT/C02", "R-TT|utils.null_condition_binary_check", f"{f.file}:{f.node.lineno}",
                               f"null_condition_binary_check returns the wrong result for {bad}: combining with the null condition must give the other operand, and two non-null operands (even equal ones) must give None", []))
            else:
                r.ok()
        except Undecidable:
            r.undecided.append(inst)
    # is_null means "is the NullCondition class"
    like = prog.cls("conditions.ConditionLike")
    impls = []
    for c in like.all_subclasses():
        m = c.methods.get("is_null")
        if m is not None:
            impls.append(m)
    inst = {"is_null implementations": [m.qualname for m in impls]}
    r.instances.append(inst)
    bad = [m for m in impls if not (single_return(m) is not None and norm(single_return(m)) == "isinstance(self, NullCondition)")]
    if len(impls) >= 1 and not bad:
        r.ok()
    else:
        for m in bad:
            r.fail(Finding("R-TT/C02", f"R-TT|{m.qualname}", f"{m.file}:{m.node.lineno}",
                           f"{m.qualname} is `{norm(single_return(m)) if single_return(m) is not None else '...'}`; only the NullCondition class may count as null "
                           f"(a leaf on the `null` callable such as Value.null() is an always-true condition, not the identity of `or`/`xor`)", []))
    # __new__ uses the check and nothing else to short-circuit
    new = prog.flat("conditions.ConditionBinaryOp.__new__")
    rv = single_return(new)
    inst = {"__new__": norm(rv) if rv is not None else None}
    r.instances.append(inst)
    if rv is not None and norm(rv) == "null_condition_binary_check(*conditions) or super().__new__(cls)":
        r.ok()
    else:
        r.undecided.append(inst)
    # spec fold
    fs = condition_parser(prog)
    fold = None
    for n in ast.walk(fs.node):
        if isinstance(n, ast.For) and ast.unparse(n.iter) == "spec_val":
            fold = n
    inst = {"spec fold": head(fold) if fold else None}
    r.instances.append(inst)
    if fold is None:
        r.undecided.append(inst)
    else:
        body = " ; ".join(ast.unparse(s) for s in fold.body)
        jumps = [n for n in ast.walk(fold) if isinstance(n, (ast.Break, ast.Continue))]
        if body == "i_obj = ConditionLike.from_spec(i) ; condition_like = cls(condition_like, i_obj)" and not jumps:
            r.ok()
        elif jumps or any(isinstance(n, ast.If) for n in fold.body):
            r.fail(Finding("R-TT/C02", "R-TT|conditions.ConditionLike.from_spec|fold", f"{fs.file}:{fold.lineno}",
                           f"the and/or/xor spec list must be folded left to right over *every* element (`{body}`): an element skipped or dropped changes xor and the structure of the combination", []))
        else:
            r.undecided.append(inst)
    return r


def rule_partand(ctx):
    prog = ctx.prog
    r = RuleResult("R-PARTAND", floor=10)
    dp = prog.module("datapath")
    sites = []
    for fq in ("datapath.get_container_value_condition", "datapath.MapOrListValue.filter", "datapath.ContainerValue.from_spec"):
        f = prog.flat(fq)
        for n in ast.walk(f.node):
            if isinstance(n, ast.Assign) and isinstance(n.value, ast.BinOp) and isinstance(n.targets[0], ast.Name) and "condition" in n.targets[0].id:
                sites.append((f, n))
    for f, n in sites:
        inst = {"site": f"{f.qualname}: {norm(n)}"}
        r.instances.append(inst)
        if isinstance(n.value.op, ast.BitAnd):
            r.ok()
        else:
            r.fail(Finding("R-PARTAND", f"R-PARTAND|{f.qualname}|{norm(n)}", f"{f.file}:{n.lineno}",
                           f"`{norm(n)}`: the key / index / value conditions of a path part must be and-combined (&)", []))
    # list branch uses list_condition, map branch map_condition
    f = prog.flat("datapath.MapOrListValue.filter")
    for n in ast.walk(f.node):
        if isinstance(n, ast.If) and "is_list" in ast.unparse(n.test):
            t = " ".join(ast.unparse(s) for s in n.body)
            e = " ".join(ast.unparse(s) for s in n.orelse)
            neg = isinstance(n.test, ast.UnaryOp)
            lt, mt = (e, t) if neg else (t, e)
            inst = {"site": "MapOrListValue.filter branches", "list": lt, "map": mt}
            r.instances.append(inst)
            if "list_condition" in lt and "map_condition" not in lt and "map_condition" in mt and "list_condition" not in mt:
                r.ok()
            else:
                r.fail(Finding("R-PARTAND", "R-PARTAND|datapath.MapOrListValue.filter|branches", f"{f.file}:{n.lineno}",
                               "a list must be filtered with list_condition and a mapping with map_condition", []))
    return r
