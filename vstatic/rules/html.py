"""C20: documentation tree and HTML writer - R-TAINT, R-BALANCE, R-DEFASSIGN, R-ORDER, R-ALWAYS."""

from __future__ import annotations

import ast
import itertools
import re

from .. import AnalysisError
from ..program import FuncInfo, norm, head
from ..report import Finding, RuleResult

EXEMPT_PARAMS = {"anchor_root": "caller-supplied, not schema text", "heading_start_level": "integer level", "show_root_heading": "flag", "_depth": "integer depth"}
TAINTED_PARAMS = {"nested_tree", "_path"}


# ------------------------------------------------------------------------------------------
# R-TAINT
# ------------------------------------------------------------------------------------------
class Taint:
    def __init__(self, func: FuncInfo):
        self.f = func
        self.violations = []   # (node, hole text)
        self.sinks = []

    def clean(self, e, env):
        """True when the string value of e contains schema-derived text only in escaped form."""
        if isinstance(e, ast.Constant):
            return True
        if isinstance(e, ast.JoinedStr):
            return all(self.clean(v.value, env) for v in e.values if isinstance(v, ast.FormattedValue))
        if isinstance(e, ast.Name):
            return env.get(e.id, False)
        if isinstance(e, ast.BinOp):
            return self.clean(e.left, env) and self.clean(e.right, env)
        if isinstance(e, ast.IfExp):
            return self.clean(e.body, env) and self.clean(e.orelse, env)
        if isinstance(e, ast.BoolOp):
            return all(self.clean(v, env) for v in e.values)
        if isinstance(e, (ast.List, ast.Tuple)):
            return all(self.clean(v, env) for v in e.elts)
        if isinstance(e, ast.Subscript):
            return self.clean(e.value, env)
        if isinstance(e, ast.Compare):
            return True
        if isinstance(e, ast.UnaryOp):
            return self.clean(e.operand, env)
        if isinstance(e, ast.Call):
            fn = norm(e.func)
            if fn == "html.escape" and e.args:
                return True
            if fn == "str" and e.args:
                return self.clean(e.args[0], env)
            if fn == self.f.name:
                return True   # induction on the function's own post-condition
            if fn == "re.sub" and len(e.args) == 3:
                return isinstance(e.args[0], ast.Constant) and isinstance(e.args[1], ast.Constant) and self.clean(e.args[2], env)
            if isinstance(e.func, ast.Attribute) and e.func.attr == "replace" and all(isinstance(a, ast.Constant) for a in e.args):
                return self.clean(e.func.value, env)
            if isinstance(e.func, ast.Attribute) and e.func.attr == "join" and len(e.args) == 1:
                return self.clean(e.func.value, env) and self.clean(e.args[0], env)
            if isinstance(e.func, ast.Attribute) and e.func.attr == "format":
                return self.clean(e.func.value, env) and all(self.clean(a, env) for a in e.args) and all(self.clean(k.value, env) for k in e.keywords)
            if fn in ("len", "int", "bool"):
                return True
            # a module-level helper: its single return expression is analysed with its parameters
            # clean iff the arguments are (so an extracted escape / replace helper is seen through)
            if isinstance(e.func, ast.Name) and e.func.id in self.f.module.functions and not e.keywords:
                h = self.f.module.functions[e.func.id]
                body = [s for s in h.node.body if not (isinstance(s, ast.Expr) and isinstance(s.value, ast.Constant))]
                if len(e.args) == len(h.params) and body and isinstance(body[-1], ast.Return) and body[-1].value is not None:
                    henv = {p.name: self.clean(a, env) for p, a in zip(h.params, e.args)}
                    sub = Taint(h)
                    sub.out_vars = set()
                    henv = sub.block(body[:-1], henv)
                    return sub.clean(body[-1].value, henv)
            return False
        if isinstance(e, (ast.ListComp, ast.GeneratorExp)):
            env2 = dict(env)
            for g in e.generators:
                c = self.clean(g.iter, env2)
                for n in ast.walk(g.target):
                    if isinstance(n, ast.Name):
                        env2[n.id] = c
            return self.clean(e.elt, env2)
        return False

    def dirty_holes(self, e, env):
        out = []
        if isinstance(e, ast.JoinedStr):
            for v in e.values:
                if isinstance(v, ast.FormattedValue) and not self.clean(v.value, env):
                    out.append(norm(v.value))
        elif isinstance(e, ast.BinOp):
            out += self.dirty_holes(e.left, env) + self.dirty_holes(e.right, env)
        elif not self.clean(e, env):
            out.append(norm(e))
        return out

    def run(self):
        f = self.f
        env = {p.name: (p.name in EXEMPT_PARAMS) for p in f.params}
        for p in f.params:
            if p.name not in EXEMPT_PARAMS and p.name not in TAINTED_PARAMS:
                env[p.name] = False
        self.out_vars = self.output_vars()
        self.block(f.node.body, env)

    def output_vars(self):
        """Variables whose value reaches the returned string directly (not through escape)."""
        f = self.f
        S = set()
        for n in ast.walk(f.node):
            if isinstance(n, ast.Return) and n.value is not None:
                S |= self.direct_names(n.value)
        changed = True
        while changed:
            changed = False
            for n in ast.walk(f.node):
                tgt, val = None, None
                if isinstance(n, ast.Assign) and len(n.targets) == 1:
                    tgt, val = n.targets[0], n.value
                elif isinstance(n, ast.AugAssign):
                    tgt, val = n.target, n.value
                elif isinstance(n, ast.Expr) and isinstance(n.value, ast.Call) and isinstance(n.value.func, ast.Attribute) and n.value.func.attr in ("append", "extend") and isinstance(n.value.func.value, ast.Name):
                    tgt, val = n.value.func.value, n.value.args[0] if n.value.args else None
                if tgt is None or val is None:
                    continue
                base = tgt
                while isinstance(base, ast.Subscript):
                    base = base.value
                if isinstance(base, ast.Name) and base.id in S:
                    new = self.direct_names(val) - S
                    if new:
                        S |= new
                        changed = True
        return S

    def direct_names(self, e):
        out = set()

        def rec(n):
            if isinstance(n, ast.Call) and norm(n.func) in ("html.escape", "len", "int", "bool"):
                return
            if isinstance(n, ast.Call) and norm(n.func) == self.f.name:
                return
            if isinstance(n, ast.Name) and isinstance(n.ctx, ast.Load):
                out.add(n.id)
            if isinstance(n, ast.Compare):
                return
            if isinstance(n, ast.IfExp):
                rec(n.body)
                rec(n.orelse)
                return
            for c in ast.iter_child_nodes(n):
                rec(c)
        rec(e)
        return out

    def sink(self, node, tgt_name, expr, env):
        if tgt_name not in self.out_vars:
            return
        holes = self.dirty_holes(expr, env)
        self.sinks.append((node, tgt_name, holes))
        for h in holes:
            self.violations.append((node, tgt_name, h))

    def block(self, stmts, env):
        for st in stmts:
            env = self.stmt(st, env)
        return env

    def stmt(self, st, env):
        env = dict(env)
        if isinstance(st, ast.Assign) and len(st.targets) == 1:
            t = st.targets[0]
            if isinstance(t, ast.Name):
                self.sink(st, t.id, st.value, env)
                env[t.id] = self.clean(st.value, env)
            elif isinstance(t, (ast.Tuple, ast.List)) and all(isinstance(x, ast.Name) for x in t.elts):
                c = self.clean(st.value, env)
                for x in t.elts:
                    env[x.id] = c
            elif isinstance(t, ast.Subscript) and isinstance(t.value, ast.Name):
                self.sink(st, t.value.id, st.value, env)
                env[t.value.id] = env.get(t.value.id, False) and self.clean(st.value, env)
            # chained targets a = b = c = expr
        elif isinstance(st, ast.Assign):
            c = self.clean(st.value, env)
            for t in st.targets:
                if isinstance(t, ast.Name):
                    self.sink(st, t.id, st.value, env)
                    env[t.id] = c
        elif isinstance(st, ast.AugAssign):
            base = st.target
            while isinstance(base, ast.Subscript):
                base = base.value
            if isinstance(base, ast.Name):
                self.sink(st, base.id, st.value, env)
                env[base.id] = env.get(base.id, False) and self.clean(st.value, env)
        elif isinstance(st, ast.Expr) and isinstance(st.value, ast.Call) and isinstance(st.value.func, ast.Attribute) and isinstance(st.value.func.value, ast.Name) and st.value.func.attr in ("append", "extend", "insert"):
            nm = st.value.func.value.id
            arg = st.value.args[-1] if st.value.args else None
            if arg is not None:
                self.sink(st, nm, arg, env)
                env[nm] = env.get(nm, False) and self.clean(arg, env)
        elif isinstance(st, ast.If):
            a = self.block(st.body, env)
            b = self.block(st.orelse, env)
            env = {k: a.get(k, False) and b.get(k, False) for k in set(a) | set(b)}
        elif isinstance(st, (ast.For, ast.While)):
            if isinstance(st, ast.For):
                c = self.clean(st.iter, env)
                for n in ast.walk(st.target):
                    if isinstance(n, ast.Name):
                        env[n.id] = c
            for _ in range(2):
                after = self.block(st.body, env)
                env = {k: env.get(k, False) and after.get(k, False) if k in env else after.get(k, False) for k in set(env) | set(after)}
        elif isinstance(st, ast.Try):
            a = self.block(st.body, env)
            for h in st.handlers:
                b = self.block(h.body, env)
                a = {k: a.get(k, False) and b.get(k, False) for k in set(a) | set(b)}
            env = a
        elif isinstance(st, ast.With):
            env = self.block(st.body, env)
        return env


def rule_taint(ctx):
    prog = ctx.prog
    r = RuleResult("R-TAINT", floor=10)
    f = prog.func("schema.write_tree_html")
    t = Taint(f)
    t.run()
    seen = set()
    for node, tgt, holes in t.sinks:
        inst = {"sink": f"{tgt} <- {norm(node)[:110]}", "unescaped holes": holes}
        r.instances.append(inst)
        if not holes:
            r.ok()
    for node, tgt, h in t.violations:
        k = (norm(node), h)
        if k in seen:
            continue
        seen.add(k)
        r.fail(Finding("R-TAINT", f"R-TAINT|schema.write_tree_html|{h}|{tgt}", f"{f.file}:{node.lineno}",
                       f"`{h}` is schema-derived text that reaches the HTML output `{tgt}` without passing through html.escape (in `{norm(node)[:100]}`)", []))
    r.notes.append(f"output variables (reach the return value unescaped): {sorted(t.out_vars)}; exempt parameters: {EXEMPT_PARAMS}")
    return r


# ------------------------------------------------------------------------------------------
# R-BALANCE
# ------------------------------------------------------------------------------------------
TAG = re.compile(r"<(/?)([A-Za-z][A-Za-z0-9]*|h\x00\d+)((?:\s[^<>]*)?)>")


def template_of(e):
    """Constant text of a string expression with holes replaced by \\x00<n> markers; None when
    the expression is not a string template."""
    holes = []

    def rec(n):
        if isinstance(n, ast.Constant) and isinstance(n.value, str):
            return n.value
        if isinstance(n, ast.JoinedStr):
            out = ""
            for v in n.values:
                if isinstance(v, ast.Constant):
                    out += str(v.value)
                else:
                    txt = norm(v.value)
                    if txt not in holes:
                        holes.append(txt)
                    out += f"\x00{holes.index(txt)}"
            return out
        if isinstance(n, ast.BinOp) and isinstance(n.op, ast.Add):
            a, b = rec(n.left), rec(n.right)
            if a is None or b is None:
                return None
            return a + b
        return None
    return rec(e), holes


def tokens(text):
    out = []
    for m in TAG.finditer(text):
        out.append(("close" if m.group(1) else "open", m.group(2)))
    return out


def balance(toks, stack=None):
    stack = list(stack or [])
    for kind, name in toks:
        if kind == "open":
            stack.append(name)
        else:
            if not stack or stack[-1] != name:
                return None, (kind, name, list(stack))
            stack.pop()
    return stack, None


def _paths(stmts):
    """Enumerate paths through a statement list: lists of simple statements.  Loops contribute
    their body zero or one time (bodies are checked separately as self-balanced)."""
    if not stmts:
        yield []
        return
    first, rest = stmts[0], stmts[1:]
    if isinstance(first, ast.If):
        for branch in (first.body, first.orelse):
            for p in _paths(branch):
                if p and isinstance(p[-1], ast.Continue):
                    yield p
                    continue
                for q in _paths(rest):
                    yield p + q
    elif isinstance(first, (ast.For, ast.While)):
        for q in _paths(rest):
            yield q
        for p in _paths(first.body):
            for q in _paths(rest):
                yield p + q
    elif isinstance(first, ast.Continue):
        yield [first]
    else:
        for q in _paths(rest):
            yield [first] + q


def rule_balance(ctx):
    prog = ctx.prog
    r = RuleResult("R-BALANCE", floor=10)
    f = prog.func("schema.write_tree_html")
    where = f"{f.file}:{f.node.lineno}"
    child_loop = next((s for s in f.node.body if isinstance(s, ast.For) and norm(s.iter) == "nested_tree"), None)
    if child_loop is None:
        raise AnalysisError("write_tree_html: loop over nested_tree not found")
    acc = "child_html"

    def appended(st):
        if isinstance(st, ast.AugAssign) and isinstance(st.target, ast.Name) and st.target.id == acc:
            return st.value
        if isinstance(st, ast.Assign) and isinstance(st.targets[0], ast.Name) and st.targets[0].id == acc:
            return st.value
        return None

    # (1) every path through the per-child body yields a balanced fragment
    npaths = 0
    bad = None
    for p in _paths(child_loop.body):
        npaths += 1
        if p and isinstance(p[-1], ast.Continue):
            continue
        stack = []
        for st in p:
            v = appended(st)
            if v is None:
                continue
            tpl, holes = template_of(v)
            if tpl is None:
                continue   # joined lists / recursive call / variables: checked separately
            stack, err = balance(tokens(tpl), stack)
            if err is not None:
                bad = (st, err)
                break
        if bad is None and stack:
            bad = (p[-1], ("unclosed", stack[-1], stack))
        if bad:
            break
    inst = {"per-child body": f"{npaths} paths", "verdict": "balanced" if not bad else f"unbalanced: {bad[1]}"}
    r.instances.append(inst)
    if bad:
        st, err = bad
        r.fail(Finding("R-BALANCE", f"R-BALANCE|schema.write_tree_html|child|{err[0]}:{err[1]}", f"{f.file}:{st.lineno}",
                       f"on some path through the per-child body the tags are not closed in order: {err[0]} `{str(err[1]).replace(chr(0), '{}')}` with open stack {[str(s).replace(chr(0), '{}') for s in err[2]]} at `{head(st)[:80]}`", []))
    else:
        r.ok()
    # (2) every other string template of the function is individually balanced (list elements, spans, doc loops, wrapper)
    for n in ast.walk(f.node):
        if isinstance(n, (ast.JoinedStr, ast.Constant)) and isinstance(getattr(n, "value", None), str) or isinstance(n, ast.JoinedStr):
            par = getattr(n, "_parent", None)
            if isinstance(par, (ast.JoinedStr, ast.FormattedValue)):
                continue
            if isinstance(par, ast.BinOp) and isinstance(par.op, ast.Add):
                continue
            tpl, holes = template_of(n)
            if tpl is None or "<" not in tpl:
                continue
            st = n
            while not isinstance(st, ast.stmt):
                st = st._parent
            tgt = None
            if isinstance(st, ast.AugAssign):
                tgt = norm(st.target)
            elif isinstance(st, ast.Assign):
                tgt = norm(st.targets[0])
            if tgt == acc:
                continue
            if isinstance(par, ast.Call) and norm(par.func) == "re.sub":
                if n is not par.args[1]:
                    continue
            stack, err = balance(tokens(tpl))
            inst = {"template": tpl.replace("\x00", "{}")[:90], "assigned to": tgt}
            r.instances.append(inst)
            opener = tgt in ("node_html",)
            if err is None and (not stack or opener):
                r.ok()
            else:
                r.fail(Finding("R-BALANCE", f"R-BALANCE|schema.write_tree_html|{tpl.replace(chr(0), '{}')[:50]}", f"{f.file}:{n.lineno}",
                               f"the HTML fragment `{tpl.replace(chr(0), '{}')[:90]}` is not balanced on its own ({err or ('unclosed', stack)}) and is not part of the per-child accumulator", []))
    # (3) concatenated templates appended outside the accumulator (BinOp of templates)
    for n in ast.walk(f.node):
        if isinstance(n, ast.BinOp) and isinstance(n.op, ast.Add) and not isinstance(getattr(n, "_parent", None), ast.BinOp):
            tpl, holes = template_of(n)
            if tpl is None or "<" not in tpl:
                continue
            st = n
            while not isinstance(st, ast.stmt):
                st = st._parent
            if appended(st) is not None:
                continue
            stack, err = balance(tokens(tpl))
            inst = {"template": tpl.replace("\x00", "{}")[:90]}
            r.instances.append(inst)
            if err is None and not stack:
                r.ok()
            else:
                r.fail(Finding("R-BALANCE", f"R-BALANCE|schema.write_tree_html|{tpl.replace(chr(0), '{}')[:50]}", f"{f.file}:{n.lineno}", f"fragment `{tpl.replace(chr(0), '{}')[:90]}` is not balanced", []))
    # (4) wrapper: node_html opens exactly one div, closed by the final literal
    outs = [n for n in ast.walk(f.node) if isinstance(n, ast.Assign) and norm(n.targets[0]) == "out" and isinstance(n.value, ast.BinOp)]
    nh = [n for n in ast.walk(f.node) if isinstance(n, ast.Assign) and norm(n.targets[0]) == "node_html"]
    inst = {"wrapper": [norm(o) for o in outs]}
    r.instances.append(inst)
    ok = False
    if outs and nh:
        tpl, _ = template_of(nh[0].value)
        st, err = balance(tokens(tpl or ""))
        ok = err is None and st == ["div"] and norm(outs[0].value) == "node_html + children_html + '</div>'"
    if ok:
        r.ok()
    else:
        r.fail(Finding("R-BALANCE", "R-BALANCE|schema.write_tree_html|wrapper", where, "the node wrapper must open one <div> in node_html and close it after the children (`node_html + children_html + '</div>'`)", []))
    return r


# ------------------------------------------------------------------------------------------
# R-DEFASSIGN
# ------------------------------------------------------------------------------------------
def possibly_unbound(func: FuncInfo, module_names):
    """[(name, node)] for loads of a local that is not definitely assigned on every path."""
    local = set()
    for n in ast.walk(func.node):
        if isinstance(n, ast.Name) and isinstance(n.ctx, (ast.Store, ast.Del)):
            local.add(n.id)
    for n in ast.walk(func.node):
        if isinstance(n, (ast.ListComp, ast.SetComp, ast.DictComp, ast.GeneratorExp)):
            for g in n.generators:
                for t in ast.walk(g.target):
                    if isinstance(t, ast.Name):
                        pass
    params = {p.name for p in func.params}
    issues = []

    def loads(e, assigned, bound=frozenset()):
        if e is None:
            return
        if isinstance(e, (ast.ListComp, ast.SetComp, ast.DictComp, ast.GeneratorExp)):
            b = set(bound)
            for g in e.generators:
                loads(g.iter, assigned, frozenset(b))
                for t in ast.walk(g.target):
                    if isinstance(t, ast.Name):
                        b.add(t.id)
                for c in g.ifs:
                    loads(c, assigned, frozenset(b))
            for part in ([e.key, e.value] if isinstance(e, ast.DictComp) else [e.elt]):
                loads(part, assigned, frozenset(b))
            return
        if isinstance(e, ast.Lambda):
            b = set(bound) | {a.arg for a in e.args.args}
            loads(e.body, assigned, frozenset(b))
            return
        if isinstance(e, ast.Name):
            if isinstance(e.ctx, ast.Load) and e.id in local and e.id not in assigned and e.id not in params and e.id not in bound:
                issues.append((e.id, e))
            return
        for c in ast.iter_child_nodes(e):
            loads(c, assigned, bound)

    def targets(t):
        return {n.id for n in ast.walk(t) if isinstance(n, ast.Name) and isinstance(n.ctx, ast.Store)}

    def block(stmts, assigned):
        for st in stmts:
            if assigned is None:
                return None
            assigned = stmt(st, assigned)
        return assigned

    def stmt(st, A):
        A = set(A)
        if isinstance(st, ast.Assign):
            loads(st.value, A)
            for t in st.targets:
                if not isinstance(t, ast.Name):
                    loads(t, A)
                A |= targets(t)
            return A
        if isinstance(st, ast.AugAssign):
            loads(st.value, A)
            if isinstance(st.target, ast.Name):
                if st.target.id in local and st.target.id not in A and st.target.id not in params:
                    issues.append((st.target.id, st.target))
            else:
                loads(st.target, A)
            return A
        if isinstance(st, ast.AnnAssign):
            loads(st.value, A)
            return A | targets(st.target)
        if isinstance(st, ast.If):
            loads(st.test, A)
            a = block(st.body, A)
            b = block(st.orelse, A)
            if a is None:
                return b
            if b is None:
                return a
            return a & b
        if isinstance(st, ast.For):
            loads(st.iter, A)
            block(st.body, A | targets(st.target))
            block(st.orelse, A)
            return A
        if isinstance(st, ast.While):
            loads(st.test, A)
            block(st.body, A)
            return A
        if isinstance(st, ast.Try):
            a = block(st.body, A)
            res = block(st.orelse, a) if a is not None else None
            for h in st.handlers:
                hb = block(h.body, A | ({h.name} if h.name else set()))
                if hb is not None:
                    res = hb if res is None else res & hb
            if st.finalbody:
                res = block(st.finalbody, res if res is not None else A)
            return res
        if isinstance(st, ast.With):
            for it in st.items:
                loads(it.context_expr, A)
                if it.optional_vars is not None:
                    A |= targets(it.optional_vars)
            return block(st.body, A)
        if isinstance(st, (ast.Return, ast.Raise)):
            for c in ast.iter_child_nodes(st):
                loads(c, A)
            return None
        if isinstance(st, (ast.Continue, ast.Break)):
            return None
        for c in ast.iter_child_nodes(st):
            if isinstance(c, ast.expr):
                loads(c, A)
        return A

    block(func.node.body, set())
    return issues


def rule_defassign(ctx):
    prog = ctx.prog
    r = RuleResult("R-DEFASSIGN", floor=5)
    from ..anchors import tree_builder
    quals = ["schema.format_map_key_value_data_type_conditions", "schema.write_tree_html", tree_builder(prog).qualname,
             "conditions.ConditionLike.get_always_applicable_key_conditions", "conditions.ConditionLike.get_always_applicable_type_like_conditions"]
    for q in quals:
        f = prog.func(q)
        issues = possibly_unbound(f, None)
        inst = {"function": q, "possibly unbound": sorted({n for n, _ in issues})}
        r.instances.append(inst)
        if not issues:
            r.ok()
        seen = set()
        for name, node in issues:
            if name in seen:
                continue
            seen.add(name)
            st = node
            while not isinstance(st, ast.stmt):
                st = st._parent
            r.fail(Finding("R-DEFASSIGN", f"R-DEFASSIGN|{q}|{name}", f"{f.file}:{node.lineno}",
                           f"local `{name}` is read in `{head(st)[:90]}` but is not assigned on every path reaching it (UnboundLocalError for the inputs that take the other path)", []))
    return r


# ------------------------------------------------------------------------------------------
# R-ORDER / R-ALWAYS
# ------------------------------------------------------------------------------------------
def rule_order(ctx):
    prog = ctx.prog
    r = RuleResult("R-ORDER", floor=1)
    from ..anchors import tree_builder
    f = tree_builder(prog)
    found = 0
    for n in ast.walk(f.node):
        if isinstance(n, ast.Assign) and isinstance(n.targets[0], ast.Subscript) and isinstance(n.targets[0].slice, ast.Constant) and n.targets[0].slice.value == "required":
            found += 1
            slot = norm(n.targets[0].value)
            inst = {"store": norm(n)}
            r.instances.append(inst)
            v = n.value
            mono = False
            if isinstance(v, ast.BoolOp) and isinstance(v.op, ast.Or):
                reads = [norm(x) for x in v.values]
                mono = any(x in (f"{slot}.get('required', False)", f"{slot}['required']", f"{slot}.get('required')") for x in reads)
            if isinstance(v, ast.Constant) and v.value is True:
                mono = True
            in_loop = any(isinstance(p, ast.For) for p in _par(n))
            if mono or not in_loop:
                r.ok()
            else:
                r.fail(Finding("R-ORDER", f"R-ORDER|schema.Schema.to_tree|{norm(n)[:60]}", f"{f.file}:{n.lineno}",
                               f"`{norm(n)[:120]}` overwrites the 'required' flag of a key on every key condition that names it: the documented flag depends on the order of the conditions "
                               f"(required_keys('a') & allowed_keys('a', 'b') vs the commuted condition)", []))
    if not found:
        raise AnalysisError("Schema.to_tree: no store of a 'required' flag found")
    # the flag derives from required_keys conditions returned by the always-applicable helper
    src = ast.unparse(f.node)
    inst = {"source of the flag": "get_always_applicable_key_conditions" in src and "'required_keys'" in src}
    r.instances.append(inst)
    if inst["source of the flag"]:
        r.ok()
    else:
        r.fail(Finding("R-ORDER", "R-ORDER|schema.Schema.to_tree|source", f"{f.file}:{f.node.lineno}", "the required flag must derive from the always-applicable `required_keys` conditions", []))
    return r


def _par(n):
    p = n
    while hasattr(p, "_parent"):
        p = p._parent
        yield p


def rule_always(ctx):
    prog = ctx.prog
    r = RuleResult("R-ALWAYS", floor=2)
    for q in ("conditions.ConditionLike.get_always_applicable_key_conditions", "conditions.ConditionLike.get_always_applicable_type_like_conditions"):
        f = prog.func(q)
        gate = next((n for n in f.node.body if isinstance(n, ast.If)), None)
        inst = {"function": q, "gate": norm(gate.test) if gate else None}
        r.instances.append(inst)
        src_ok = any(isinstance(n, ast.Assign) and norm(n.value) == "self.flatten()" for n in f.node.body)
        loops_outside = [n for n in f.node.body if isinstance(n, ast.For)]
        if gate is not None and norm(gate.test) in ("not binary_ops or set(binary_ops) == {'and'}",) and src_ok and not loops_outside and not gate.orelse:
            r.ok()
        elif gate is None or loops_outside:
            r.fail(Finding("R-ALWAYS", f"R-ALWAYS|{q}", f"{f.file}:{f.node.lineno}",
                           "conditions may be reported as always applicable only when the combination uses no operator or only `and` (gate missing or a collection loop outside it)", []))
        else:
            t = norm(gate.test)
            if "or" in t.split("==")[-1] and "'or'" in t or "'xor'" in t:
                r.fail(Finding("R-ALWAYS", f"R-ALWAYS|{q}", f"{f.file}:{gate.lineno}", f"gate `{t}` admits or / xor combinations, whose operands do not always apply", []))
            else:
                r.undecided.append(inst)
    return r
