"""C20: documentation tree and HTML writer - R-TAINT, R-BALANCE, R-DEFASSIGN, R-ORDER, R-ALWAYS."""

from __future__ import annotations

import ast
import itertools
import re

from .. import AnalysisError
from ..program import FuncInfo, norm, head
from ..report import Finding, RuleResult

EXEMPT_PARAMS = {"anchor_root": "caller-supplied, not schema text", "heading_start_level": "integer level", "show_root_heading": "flag", "_depth": "integer depth"}
TAINTED_PARAMS = {"nested_tree", "_path"}


# ------------------------------------------------------------------------------------------
# R-TAINT
# ------------------------------------------------------------------------------------------
def _collapse(sh):
    if isinstance(sh, tuple):
        if sh[0] == "T":
            return all(_collapse(x) for x in sh[1])
        return _collapse(sh[1])
    return bool(sh)


def _meet(a, b):
    if isinstance(a, tuple) and isinstance(b, tuple) and a[0] == b[0]:
        if a[0] == "T" and len(a[1]) == len(b[1]):
            return ("T", tuple(_meet(x, y) for x, y in zip(a[1], b[1])))
        if a[0] == "L":
            return ("L", _meet(a[1], b[1]))
    return _collapse(a) and _collapse(b)


def _elem(sh):
    if isinstance(sh, tuple):
        if sh[0] == "L":
            return sh[1]
        out = True
        for i, x in enumerate(sh[1]):
            out = x if i == 0 else _meet(out, x)
        return out
    return sh


def _bind(target, sh, env):
    if isinstance(target, ast.Name):
        env[target.id] = sh
    elif isinstance(target, (ast.Tuple, ast.List)):
        if isinstance(sh, tuple) and sh[0] == "T" and len(sh[1]) == len(target.elts) and not any(isinstance(x, ast.Starred) for x in target.elts):
            for t, c in zip(target.elts, sh[1]):
                _bind(t, c, env)
        else:
            c = _collapse(sh)
            for n in ast.walk(target):
                if isinstance(n, ast.Name):
                    env[n.id] = c


class Taint:
    """Cleanliness is tracked per variable; fixed-size tuples and homogeneous lists keep one
    flag per position / for the elements, so that a table of (schema value, css class, label)
    rows unpacked in a loop does not smear the schema value's flag over the constants."""

    def shape(self, e, env):
        if isinstance(e, ast.Tuple) and not any(isinstance(x, ast.Starred) for x in e.elts):
            return ("T", tuple(self.shape(x, env) for x in e.elts))
        if isinstance(e, ast.List) and not any(isinstance(x, ast.Starred) for x in e.elts):
            out = True
            for i, x in enumerate(e.elts):
                out = self.shape(x, env) if i == 0 else _meet(out, self.shape(x, env))
            return ("L", out)
        if isinstance(e, ast.Name):
            return env.get(e.id, False)
        if isinstance(e, (ast.ListComp, ast.GeneratorExp)):
            env2 = dict(env)
            for g in e.generators:
                _bind(g.target, _elem(self.shape(g.iter, env2)), env2)
            return ("L", self.shape(e.elt, env2))
        return self.clean(e, env)

    def __init__(self, func: FuncInfo):
        self.f = func
        self.violations = []   # (node, hole text)
        self.sinks = []

    def clean(self, e, env):
        """True when the string value of e contains schema-derived text only in escaped form."""
        if isinstance(e, ast.Constant):
            return True
        if isinstance(e, ast.JoinedStr):
            return all(self.clean(v.value, env) for v in e.values if isinstance(v, ast.FormattedValue))
        if isinstance(e, ast.Name):
            return _collapse(env.get(e.id, False))
        if isinstance(e, ast.BinOp):
            return self.clean(e.left, env) and self.clean(e.right, env)
        if isinstance(e, ast.IfExp):
            return self.clean(e.body, env) and self.clean(e.orelse, env)
        if isinstance(e, ast.BoolOp):
            return all(self.clean(v, env) for v in e.values)
        if isinstance(e, (ast.List, ast.Tuple)):
            return all(self.clean(v, env) for v in e.elts)
        if isinstance(e, ast.Subscript):
            return self.clean(e.value, env)
        if isinstance(e, ast.Compare):
            return True
        if isinstance(e, ast.UnaryOp):
            return self.clean(e.operand, env)
        if isinstance(e, ast.Call):
            fn = norm(e.func)
            if fn == "html.escape" and e.args:
                return True
            if fn == "str" and e.args:
                return self.clean(e.args[0], env)
            if fn == self.f.name:
                return True   # induction on the function's own post-condition
            if fn == "re.sub" and len(e.args) == 3:
                return isinstance(e.args[0], ast.Constant) and isinstance(e.args[1], ast.Constant) and self.clean(e.args[2], env)
            if isinstance(e.func, ast.Attribute) and e.func.attr == "replace" and all(isinstance(a, ast.Constant) for a in e.args):
                return self.clean(e.func.value, env)
            if isinstance(e.func, ast.Attribute) and e.func.attr == "join" and len(e.args) == 1:
                return self.clean(e.func.value, env) and self.clean(e.args[0], env)
            if isinstance(e.func, ast.Attribute) and e.func.attr == "format":
                return self.clean(e.func.value, env) and all(self.clean(a, env) for a in e.args) and all(self.clean(k.value, env) for k in e.keywords)
            if fn in ("len", "int", "bool"):
                return True
            if fn in ("min", "max", "abs") and e.args and not e.keywords:
                # returns one of its (clean) arguments, or a number: a clamped heading level stays clean
                return all(self.clean(a, env) for a in e.args)
            # a module-level helper: its single return expression is analysed with its parameters
            # clean iff the arguments are (so an extracted escape / replace helper is seen through)
            if isinstance(e.func, ast.Name) and e.func.id in self.f.module.functions and not e.keywords:
                h = self.f.module.functions[e.func.id]
                body = [s for s in h.node.body if not (isinstance(s, ast.Expr) and isinstance(s.value, ast.Constant))]
                if len(e.args) == len(h.params) and body and isinstance(body[-1], ast.Return) and body[-1].value is not None:
                    henv = {p.name: self.clean(a, env) for p, a in zip(h.params, e.args)}
                    sub = Taint(h)
                    sub.out_vars = set()
                    henv = sub.block(body[:-1], henv)
                    return sub.clean(body[-1].value, henv)
            return False
        if isinstance(e, (ast.ListComp, ast.GeneratorExp)):
            return _collapse(self.shape(e, env))
        return False

    def dirty_holes(self, e, env):
        out = []
        if isinstance(e, ast.JoinedStr):
            for v in e.values:
                if isinstance(v, ast.FormattedValue) and not self.clean(v.value, env):
                    out.append(norm(v.value))
        elif isinstance(e, ast.BinOp):
            out += self.dirty_holes(e.left, env) + self.dirty_holes(e.right, env)
        elif not self.clean(e, env):
            out.append(norm(e))
        return out

    def run(self):
        f = self.f
        env = {p.name: (p.name in EXEMPT_PARAMS) for p in f.params}
        for p in f.params:
            if p.name not in EXEMPT_PARAMS and p.name not in TAINTED_PARAMS:
                env[p.name] = False
        self.out_vars = self.output_vars()
        self.check_return = True
        self.block(f.node.body, env)

    def output_vars(self):
        """Variables whose value reaches the returned string directly (not through escape)."""
        f = self.f
        S = set()
        for n in ast.walk(f.node):
            if isinstance(n, ast.Return) and n.value is not None:
                S |= self.direct_names(n.value)
        changed = True
        while changed:
            changed = False
            for n in ast.walk(f.node):
                tgt, val = None, None
                if isinstance(n, ast.Assign) and len(n.targets) == 1:
                    tgt, val = n.targets[0], n.value
                elif isinstance(n, ast.AugAssign):
                    tgt, val = n.target, n.value
                elif isinstance(n, ast.Expr) and isinstance(n.value, ast.Call) and isinstance(n.value.func, ast.Attribute) and n.value.func.attr in ("append", "extend") and isinstance(n.value.func.value, ast.Name):
                    tgt, val = n.value.func.value, n.value.args[0] if n.value.args else None
                if tgt is None or val is None:
                    continue
                base = tgt
                while isinstance(base, ast.Subscript):
                    base = base.value
                if isinstance(base, ast.Name) and base.id in S:
                    new = self.direct_names(val) - S
                    if new:
                        S |= new
                        changed = True
        return S

    def direct_names(self, e):
        out = set()

        def rec(n):
            if isinstance(n, ast.Call) and norm(n.func) in ("html.escape", "len", "int", "bool"):
                return
            if isinstance(n, ast.Call) and norm(n.func) == self.f.name:
                return
            if isinstance(n, ast.Name) and isinstance(n.ctx, ast.Load):
                out.add(n.id)
            if isinstance(n, ast.Compare):
                return
            if isinstance(n, ast.IfExp):
                rec(n.body)
                rec(n.orelse)
                return
            for c in ast.iter_child_nodes(n):
                rec(c)
        rec(e)
        return out

    @staticmethod
    def builds_text(e):
        """The expression assembles text (a template, a concatenation, a join / format call) rather
        than merely copying or fetching a value; only such assignments are output sinks - a copied
        value is tracked in the environment and judged where it is put into a template."""
        if isinstance(e, ast.JoinedStr):
            return True
        if isinstance(e, ast.BinOp):
            return True
        if isinstance(e, ast.Call) and isinstance(e.func, ast.Attribute) and e.func.attr in ("join", "format"):
            return True
        if isinstance(e, (ast.List, ast.Tuple)):
            return any(Taint.builds_text(x) for x in e.elts)
        if isinstance(e, ast.IfExp):
            return Taint.builds_text(e.body) or Taint.builds_text(e.orelse)
        return False

    def sink(self, node, tgt_name, expr, env):
        if tgt_name not in self.out_vars:
            return
        if isinstance(node, ast.Assign) and all(isinstance(t, ast.Name) for t in node.targets) and not self.builds_text(expr):
            return
        holes = self.dirty_holes(expr, env)
        self.sinks.append((node, tgt_name, holes))
        for h in holes:
            self.violations.append((node, tgt_name, h))

    def block(self, stmts, env):
        for st in stmts:
            env = self.stmt(st, env)
        return env

    def stmt(self, st, env):
        env = dict(env)
        if isinstance(st, ast.Assign) and len(st.targets) == 1:
            t = st.targets[0]
            if isinstance(t, ast.Name):
                self.sink(st, t.id, st.value, env)
                env[t.id] = self.shape(st.value, env)
            elif isinstance(t, (ast.Tuple, ast.List)):
                _bind(t, self.shape(st.value, env), env)
            elif isinstance(t, ast.Subscript) and isinstance(t.value, ast.Name):
                self.sink(st, t.value.id, st.value, env)
                env[t.value.id] = _collapse(env.get(t.value.id, False)) and self.clean(st.value, env)
            # chained targets a = b = c = expr
        elif isinstance(st, ast.Assign):
            c = self.clean(st.value, env)
            for t in st.targets:
                if isinstance(t, ast.Name):
                    self.sink(st, t.id, st.value, env)
                    env[t.id] = c
        elif isinstance(st, ast.AugAssign):
            base = st.target
            while isinstance(base, ast.Subscript):
                base = base.value
            if isinstance(base, ast.Name):
                self.sink(st, base.id, st.value, env)
                env[base.id] = _collapse(env.get(base.id, False)) and self.clean(st.value, env)
        elif isinstance(st, ast.Expr) and isinstance(st.value, ast.Call) and isinstance(st.value.func, ast.Attribute) and isinstance(st.value.func.value, ast.Name) and st.value.func.attr in ("append", "extend", "insert"):
            nm = st.value.func.value.id
            arg = st.value.args[-1] if st.value.args else None
            if arg is not None:
                self.sink(st, nm, arg, env)
                cur = env.get(nm, False)
                if st.value.func.attr == "append" and isinstance(cur, tuple) and cur[0] == "L":
                    env[nm] = ("L", _meet(cur[1], self.shape(arg, env)))
                else:
                    env[nm] = _collapse(cur) and self.clean(arg, env)
        elif isinstance(st, ast.Return) and st.value is not None and getattr(self, "check_return", False):
            holes = self.dirty_holes(st.value, env)
            self.sinks.append((st, "<return>", holes))
            for h in holes:
                self.violations.append((st, "<return>", h))
        elif isinstance(st, ast.If):
            a = self.block(st.body, env)
            b = self.block(st.orelse, env)
            env = {k: _meet(a.get(k, False), b.get(k, False)) for k in set(a) | set(b)}
        elif isinstance(st, (ast.For, ast.While)):
            if isinstance(st, ast.For):
                _bind(st.target, _elem(self.shape(st.iter, env)), env)
            for _ in range(2):
                after = self.block(st.body, env)
                env = {k: _meet(env.get(k, False), after.get(k, False)) if k in env else after.get(k, False) for k in set(env) | set(after)}
        elif isinstance(st, ast.Try):
            a = self.block(st.body, env)
            for h in st.handlers:
                b = self.block(h.body, env)
                a = {k: _meet(a.get(k, False), b.get(k, False)) for k in set(a) | set(b)}
            env = a
        elif isinstance(st, ast.With):
            env = self.block(st.body, env)
        return env


def rule_taint(ctx):
    prog = ctx.prog
    r = RuleResult("R-TAINT", floor=10)
    f = prog.flat("schema.write_tree_html")
    t = Taint(f)
    t.run()
    seen = set()
    for node, tgt, holes in t.sinks:
        inst = {"sink": f"{tgt} <- {norm(node)[:110]}", "unescaped holes": holes}
        r.instances.append(inst)
        if not holes:
            r.ok()
    for node, tgt, h in t.violations:
        k = (norm(node), h)
        if k in seen:
            continue
        seen.add(k)
        r.fail(Finding("R-TAINT", f"R-TAINT|schema.write_tree_html|{h}|{tgt}", f"{f.file}:{node.lineno}",
                       f"`{h}` is schema-derived text that reaches the HTML output `{tgt}` without passing through html.escape (in `{norm(node)[:100]}`)", []))
    r.notes.append(f"output variables (reach the return value unescaped): {sorted(t.out_vars)}; exempt parameters: {EXEMPT_PARAMS}")
    return r


# ------------------------------------------------------------------------------------------
# R-BALANCE
# ------------------------------------------------------------------------------------------
TAG = re.compile(r"<(/?)([A-Za-z][A-Za-z0-9]*|h\x00\d+)((?:\s[^<>]*)?)>")


def template_of(e):
    """Constant text of a string expression with holes replaced by \\x00<n> markers; None when
    the expression is not a string template."""
    holes = []

    def rec(n):
        if isinstance(n, ast.Constant) and isinstance(n.value, str):
            return n.value
        if isinstance(n, ast.JoinedStr):
            out = ""
            for v in n.values:
                if isinstance(v, ast.Constant):
                    out += str(v.value)
                else:
                    txt = norm(v.value)
                    if txt not in holes:
                        holes.append(txt)
                    out += f"\x00{holes.index(txt)}"
            return out
        if isinstance(n, ast.BinOp) and isinstance(n.op, ast.Add):
            a, b = rec(n.left), rec(n.right)
            if a is None or b is None:
                return None
            return a + b
        return None
    return rec(e), holes


def tokens(text):
    out = []
    for m in TAG.finditer(text):
        out.append(("close" if m.group(1) else "open", m.group(2)))
    return out


def balance(toks, stack=None):
    stack = list(stack or [])
    for kind, name in toks:
        if kind == "open":
            stack.append(name)
        else:
            if not stack or stack[-1] != name:
                return None, (kind, name, list(stack))
            stack.pop()
    return stack, None


def _paths(stmts):
    """Enumerate paths through a statement list: lists of simple statements.  Loops contribute
    their body zero or one time (bodies are checked separately as self-balanced)."""
    if not stmts:
        yield []
        return
    first, rest = stmts[0], stmts[1:]
    if isinstance(first, ast.If):
        for branch in (first.body, first.orelse):
            for p in _paths(branch):
                if p and isinstance(p[-1], ast.Continue):
                    yield p
                    continue
                for q in _paths(rest):
                    yield p + q
    elif isinstance(first, (ast.For, ast.While)):
        for q in _paths(rest):
            yield q
        for p in _paths(first.body):
            for q in _paths(rest):
                yield p + q
    elif isinstance(first, ast.Continue):
        yield [first]
    else:
        for q in _paths(rest):
            yield [first] + q


def _acc_init(st):
    """(name, [initial element exprs]) when st initialises a string / list accumulator."""
    if isinstance(st, ast.Assign) and len(st.targets) == 1 and isinstance(st.targets[0], ast.Name):
        v = st.value
        if isinstance(v, ast.Constant) and v.value == "":
            return st.targets[0].id, []
        if isinstance(v, ast.List):
            return st.targets[0].id, list(v.elts)
    return None


def _emission(st, acc):
    """Expressions st appends to accumulator `acc` (None when st does not touch it)."""
    if isinstance(st, ast.AugAssign) and isinstance(st.target, ast.Name) and st.target.id == acc and isinstance(st.op, ast.Add):
        if isinstance(st.value, ast.List):
            return list(st.value.elts)
        return [st.value]
    if isinstance(st, ast.Assign) and len(st.targets) == 1 and isinstance(st.targets[0], ast.Name) and st.targets[0].id == acc \
            and isinstance(st.value, ast.BinOp) and isinstance(st.value.op, ast.Add) and isinstance(st.value.left, ast.Name) and st.value.left.id == acc:
        return [st.value.right]
    if isinstance(st, ast.Expr) and isinstance(st.value, ast.Call) and isinstance(st.value.func, ast.Attribute) and isinstance(st.value.func.value, ast.Name) \
            and st.value.func.value.id == acc and st.value.args:
        if st.value.func.attr == "append":
            return [st.value.args[0]]
        if st.value.func.attr == "extend" and isinstance(st.value.args[0], (ast.List, ast.Tuple)):
            return list(st.value.args[0].elts)
        if st.value.func.attr in ("extend", "insert"):
            return [st.value.args[-1]]
    return None


def rule_balance(ctx):
    """Every HTML accumulator of the writer (a string grown with `+=` or a list grown with
    append and joined) holds a fragment whose tags are closed in order on every path through
    the block that owns it; emitted variables are holes (they are accumulators or templates
    with their own obligation), variables bound once to a template are substituted.  Templates
    that are not emitted anywhere must be balanced on their own; concatenations are checked
    as a whole."""
    prog = ctx.prog
    r = RuleResult("R-BALANCE", floor=8)
    f = prog.flat("schema.write_tree_html")
    where = f"{f.file}:{f.node.lineno}"
    if not f.params:
        raise AnalysisError("write_tree_html has no parameters")
    tree_param = f.params[0].name
    child_loop = next((s for s in ast.walk(f.node) if isinstance(s, ast.For) and norm(s.iter) == tree_param), None)
    if child_loop is None:
        raise AnalysisError("write_tree_html: loop over the tree parameter not found")

    # variables bound exactly once to a template
    assigns = {}
    for n in ast.walk(f.node):
        if isinstance(n, ast.Assign) and len(n.targets) == 1 and isinstance(n.targets[0], ast.Name):
            assigns.setdefault(n.targets[0].id, []).append(n)
        elif isinstance(n, (ast.AugAssign,)) and isinstance(n.target, ast.Name):
            assigns.setdefault(n.target.id, []).append(n)
        elif isinstance(n, ast.For):
            for x in ast.walk(n.target):
                if isinstance(x, ast.Name):
                    assigns.setdefault(x.id, []).append(n)
    single_tpl = {}
    for nm, lst in assigns.items():
        if len(lst) == 1 and isinstance(lst[0], ast.Assign):
            tpl, _ = template_of(lst[0].value)
            if tpl is not None and "<" in tpl:
                single_tpl[nm] = (tpl, lst[0])

    def tpl_of(e):
        """template text of an emitted expression; '' for holes (variables, joins, calls)."""
        tpl, _ = template_of(e)
        if tpl is not None:
            return tpl
        if isinstance(e, ast.Name) and e.id in single_tpl:
            return single_tpl[e.id][0]
        if isinstance(e, ast.BinOp) and isinstance(e.op, ast.Add):
            return tpl_of(e.left) + tpl_of(e.right)
        if isinstance(e, ast.Call) and isinstance(e.func, ast.Attribute) and e.func.attr == "join" and isinstance(e.func.value, ast.Constant) and "<" in str(e.func.value.value):
            return None
        return ""

    emitted_nodes = set()
    used_single = set()

    def note_emitted(e):
        for x in ast.walk(e):
            emitted_nodes.add(id(x))
        if isinstance(e, ast.Name) and e.id in single_tpl:
            used_single.add(e.id)
        if isinstance(e, ast.BinOp):
            for x in ast.walk(e):
                if isinstance(x, ast.Name) and x.id in single_tpl:
                    used_single.add(x.id)

    # accumulators: (name, owning block, index of init)
    accs = []
    for n in ast.walk(f.node):
        for fld in ("body", "orelse", "finalbody"):
            blk = getattr(n, fld, None)
            if not isinstance(blk, list):
                continue
            for i, st in enumerate(blk):
                ini = _acc_init(st) if isinstance(st, ast.stmt) else None
                if ini is None:
                    continue
                name, elts = ini
                grown = any(_emission(x, name) is not None for y in blk[i + 1:] for x in ast.walk(y) if isinstance(x, ast.stmt))
                if grown:
                    accs.append((name, blk, i, elts))
    n_html = 0
    for name, blk, i, elts in accs:
        npaths, bad, undec = 0, None, False
        has_tags = False
        for p in _paths(blk[i + 1:]):
            npaths += 1
            if npaths > 20000:
                undec = True
                break
            if p and isinstance(p[-1], ast.Continue):
                continue
            stack = []
            seq = [(blk[i], e) for e in elts]
            for st in p:
                em = _emission(st, name)
                if em is not None:
                    seq += [(st, e) for e in em]
            for st, e in seq:
                note_emitted(e)
                t = tpl_of(e)
                if t is None:
                    undec = True
                    continue
                if "<" in t:
                    has_tags = True
                stack, err = balance(tokens(t), stack)
                if err is not None:
                    bad = (st, err)
                    break
            if bad is None and stack:
                bad = (p[-1] if p else blk[i], ("unclosed", stack[-1], stack))
            if bad:
                break
        if not has_tags and not bad:
            continue
        n_html += 1
        inst = {"accumulator": name, "paths": npaths, "verdict": "balanced on every path" if not bad else f"unbalanced: {bad[1]}"}
        r.instances.append(inst)
        if bad:
            st, err = bad
            r.fail(Finding("R-BALANCE", f"R-BALANCE|schema.write_tree_html|{'child' if any(blk is b for b in (child_loop.body,)) else name}|{err[0]}:{err[1]}", f"{f.file}:{st.lineno}",
                           f"on some path the tags collected in `{name}` are not closed in order: {err[0]} `{str(err[1]).replace(chr(0), '{}')}` with open stack {[str(x).replace(chr(0), '{}') for x in err[2]]} at `{head(st)[:80]}`", []))
        elif undec:
            r.undecided.append(inst)
        else:
            r.ok()
    if n_html == 0:
        r.undecided.append({"what": "no HTML accumulator recognised in write_tree_html"})
    # concatenations (outside emissions): balanced as a whole, with single-template variables substituted
    for n in ast.walk(f.node):
        if isinstance(n, ast.BinOp) and isinstance(n.op, ast.Add) and not isinstance(getattr(n, "_parent", None), ast.BinOp) and id(n) not in emitted_nodes:
            t = tpl_of(n)
            if t is None or "<" not in t:
                continue
            for x in ast.walk(n):
                if isinstance(x, ast.Name) and x.id in single_tpl:
                    used_single.add(x.id)
                emitted_nodes.add(id(x))
            stack, err = balance(tokens(t))
            inst = {"concatenation": norm(n)[:90], "template": t.replace("\x00", "{}")[:90]}
            r.instances.append(inst)
            if err is None and not stack:
                r.ok()
            else:
                r.fail(Finding("R-BALANCE", f"R-BALANCE|schema.write_tree_html|{t.replace(chr(0), '{}')[:50]}", f"{f.file}:{n.lineno}",
                               f"the concatenation `{norm(n)[:90]}` yields `{t.replace(chr(0), '{}')[:90]}`, which is not balanced ({err or ('unclosed', stack)})", []))
    # every other template must be balanced on its own
    for n in ast.walk(f.node):
        if isinstance(n, ast.JoinedStr) or (isinstance(n, ast.Constant) and isinstance(n.value, str)):
            par = getattr(n, "_parent", None)
            if isinstance(par, (ast.JoinedStr, ast.FormattedValue)):
                continue
            if id(n) in emitted_nodes:
                continue
            if isinstance(par, ast.BinOp) and isinstance(par.op, ast.Add):
                continue   # part of a concatenation that was not a template as a whole: holes in between
            tpl, holes = template_of(n)
            if tpl is None or "<" not in tpl:
                continue
            if isinstance(par, ast.Call) and norm(par.func) == "re.sub":
                if len(par.args) < 2 or n is not par.args[1]:
                    continue
            st = n
            while not isinstance(st, ast.stmt):
                st = st._parent
            tgt = norm(st.targets[0]) if isinstance(st, ast.Assign) else (norm(st.target) if isinstance(st, ast.AugAssign) else None)
            if tgt in single_tpl and tgt in used_single and single_tpl[tgt][1] is st:
                continue   # an opener / closer checked where it is concatenated or emitted
            stack, err = balance(tokens(tpl))
            inst = {"template": tpl.replace("\x00", "{}")[:90], "assigned to": tgt}
            r.instances.append(inst)
            if err is None and not stack:
                r.ok()
            else:
                r.fail(Finding("R-BALANCE", f"R-BALANCE|schema.write_tree_html|{tpl.replace(chr(0), '{}')[:50]}", f"{f.file}:{n.lineno}",
                               f"the HTML fragment `{tpl.replace(chr(0), '{}')[:90]}` is not balanced on its own ({err or ('unclosed', stack)}) and is not emitted into a balanced accumulator / concatenation", []))
    return r


# ------------------------------------------------------------------------------------------
# R-DEFASSIGN
# ------------------------------------------------------------------------------------------
def possibly_unbound(func: FuncInfo, module_names):
    """[(name, node)] for loads of a local that is not definitely assigned on every path."""
    local = set()
    for n in ast.walk(func.node):
        if isinstance(n, ast.Name) and isinstance(n.ctx, (ast.Store, ast.Del)):
            local.add(n.id)
    for n in ast.walk(func.node):
        if isinstance(n, (ast.ListComp, ast.SetComp, ast.DictComp, ast.GeneratorExp)):
            for g in n.generators:
                for t in ast.walk(g.target):
                    if isinstance(t, ast.Name):
                        pass
    params = {p.name for p in func.params}
    issues = []

    def loads(e, assigned, bound=frozenset()):
        if e is None:
            return
        if isinstance(e, (ast.ListComp, ast.SetComp, ast.DictComp, ast.GeneratorExp)):
            b = set(bound)
            for g in e.generators:
                loads(g.iter, assigned, frozenset(b))
                for t in ast.walk(g.target):
                    if isinstance(t, ast.Name):
                        b.add(t.id)
                for c in g.ifs:
                    loads(c, assigned, frozenset(b))
            for part in ([e.key, e.value] if isinstance(e, ast.DictComp) else [e.elt]):
                loads(part, assigned, frozenset(b))
            return
        if isinstance(e, ast.Lambda):
            b = set(bound) | {a.arg for a in e.args.args}
            loads(e.body, assigned, frozenset(b))
            return
        if isinstance(e, ast.Name):
            if isinstance(e.ctx, ast.Load) and e.id in local and e.id not in assigned and e.id not in params and e.id not in bound:
                issues.append((e.id, e))
            return
        for c in ast.iter_child_nodes(e):
            loads(c, assigned, bound)

    def targets(t):
        return {n.id for n in ast.walk(t) if isinstance(n, ast.Name) and isinstance(n.ctx, ast.Store)}

    def block(stmts, assigned):
        for st in stmts:
            if assigned is None:
                return None
            assigned = stmt(st, assigned)
        return assigned

    def stmt(st, A):
        A = set(A)
        if isinstance(st, ast.Assign):
            loads(st.value, A)
            for t in st.targets:
                if not isinstance(t, ast.Name):
                    loads(t, A)
                A |= targets(t)
            return A
        if isinstance(st, ast.AugAssign):
            loads(st.value, A)
            if isinstance(st.target, ast.Name):
                if st.target.id in local and st.target.id not in A and st.target.id not in params:
                    issues.append((st.target.id, st.target))
            else:
                loads(st.target, A)
            return A
        if isinstance(st, ast.AnnAssign):
            loads(st.value, A)
            return A | targets(st.target)
        if isinstance(st, ast.If):
            loads(st.test, A)
            a = block(st.body, A)
            b = block(st.orelse, A)
            if a is None:
                return b
            if b is None:
                return a
            return a & b
        if isinstance(st, ast.For):
            loads(st.iter, A)
            block(st.body, A | targets(st.target))
            block(st.orelse, A)
            return A
        if isinstance(st, ast.While):
            loads(st.test, A)
            block(st.body, A)
            return A
        if isinstance(st, ast.Try):
            a = block(st.body, A)
            res = block(st.orelse, a) if a is not None else None
            for h in st.handlers:
                hb = block(h.body, A | ({h.name} if h.name else set()))
                if hb is not None:
                    res = hb if res is None else res & hb
            if st.finalbody:
                res = block(st.finalbody, res if res is not None else A)
            return res
        if isinstance(st, ast.With):
            for it in st.items:
                loads(it.context_expr, A)
                if it.optional_vars is not None:
                    A |= targets(it.optional_vars)
            return block(st.body, A)
        if isinstance(st, (ast.Return, ast.Raise)):
            for c in ast.iter_child_nodes(st):
                loads(c, A)
            return None
        if isinstance(st, (ast.Continue, ast.Break)):
            return None
        for c in ast.iter_child_nodes(st):
            if isinstance(c, ast.expr):
                loads(c, A)
        return A

    block(func.node.body, set())
    return issues


def rule_defassign(ctx):
    prog = ctx.prog
    r = RuleResult("R-DEFASSIGN", floor=5)
    from ..anchors import tree_builder
    quals = ["schema.format_map_key_value_data_type_conditions", "schema.write_tree_html", tree_builder(prog).qualname,
             "conditions.ConditionLike.get_always_applicable_key_conditions", "conditions.ConditionLike.get_always_applicable_type_like_conditions"]
    for q in quals:
        f = prog.flat(q)
        issues = possibly_unbound(f, None)
        inst = {"function": q, "possibly unbound": sorted({n for n, _ in issues})}
        r.instances.append(inst)
        if not issues:
            r.ok()
        seen = set()
        for name, node in issues:
            if name in seen:
                continue
            seen.add(name)
            st = node
            while not isinstance(st, ast.stmt):
                st = st._parent
            r.fail(Finding("R-DEFASSIGN", f"R-DEFASSIGN|{q}|{name}", f"{f.file}:{node.lineno}",
                           f"local `{name}` is read in `{head(st)[:90]}` but is not assigned on every path reaching it (UnboundLocalError for the inputs that take the other path)", []))
    return r


# ------------------------------------------------------------------------------------------
# R-ORDER / R-ALWAYS
# ------------------------------------------------------------------------------------------
def rule_order(ctx):
    prog = ctx.prog
    r = RuleResult("R-ORDER", floor=1)
    from ..anchors import tree_builder
    f = tree_builder(prog)
    found = 0
    for n in ast.walk(f.node):
        if isinstance(n, ast.Assign) and isinstance(n.targets[0], ast.Subscript) and isinstance(n.targets[0].slice, ast.Constant) and n.targets[0].slice.value == "required":
            found += 1
            slot = norm(n.targets[0].value)
            inst = {"store": norm(n)}
            r.instances.append(inst)
            v = n.value
            mono = False
            if isinstance(v, ast.BoolOp) and isinstance(v.op, ast.Or):
                reads = [norm(x) for x in v.values]
                mono = any(x in (f"{slot}.get('required', False)", f"{slot}['required']", f"{slot}.get('required')") for x in reads)
            if isinstance(v, ast.Constant) and v.value is True:
                mono = True
            in_loop = any(isinstance(p, ast.For) for p in _par(n))
            if mono or not in_loop:
                r.ok()
            else:
                r.fail(Finding("R-ORDER", f"R-ORDER|schema.Schema.to_tree|{norm(n)[:60]}", f"{f.file}:{n.lineno}",
                               f"`{norm(n)[:120]}` overwrites the 'required' flag of a key on every key condition that names it: the documented flag depends on the order of the conditions "
                               f"(required_keys('a') & allowed_keys('a', 'b') vs the commuted condition)", []))
    if not found:
        raise AnalysisError("Schema.to_tree: no store of a 'required' flag found")
    # the flag derives from required_keys conditions returned by the always-applicable helper
    src = ast.unparse(f.node)
    inst = {"source of the flag": "get_always_applicable_key_conditions" in src and "'required_keys'" in src}
    r.instances.append(inst)
    if inst["source of the flag"]:
        r.ok()
    else:
        r.fail(Finding("R-ORDER", "R-ORDER|schema.Schema.to_tree|source", f"{f.file}:{f.node.lineno}", "the required flag must derive from the always-applicable `required_keys` conditions", []))
    return r


def rule_nodekey(ctx):
    """Nodes of the documentation tree are identified by `tuple(str(part) for part in <path>)`.
    The string of a *part* is injective on parts (it is the part's repr); the string of a
    *simplified* part is not (the key 1 and the key '1' both give '1'), so an identity built from
    `.simplify()` merges distinct nodes."""
    prog = ctx.prog
    r = RuleResult("R-NODEKEY", floor=1)
    from ..anchors import tree_builder
    from .astutil import local_alias_map
    f = tree_builder(prog)
    amap = local_alias_map(f)
    # the node table: the dict whose subscripts are assigned `{...}` / tested with `in`
    tables = {}
    for n in ast.walk(f.node):
        if isinstance(n, ast.Subscript) and isinstance(n.value, ast.Name) and isinstance(n.slice, ast.Name):
            tables.setdefault(n.value.id, set()).add(n.slice.id)
    table = max(tables, key=lambda k: len(tables[k]), default=None)
    keys = tables.get(table, set())
    for n in ast.walk(f.node):
        if not (isinstance(n, ast.Assign) and len(n.targets) == 1 and isinstance(n.targets[0], ast.Name) and n.targets[0].id in keys):
            continue
        v = n.value
        if not (isinstance(v, ast.Call) and norm(v.func) == "tuple" and len(v.args) == 1 and isinstance(v.args[0], ast.GeneratorExp)):
            continue
        g = v.args[0]
        src = g.generators[0].iter
        # every expression the iterated value may derive from (flow-insensitive over the local assignments)
        exprs, names, work = [src], set(), [src]
        while work:
            e = work.pop()
            for x in ast.walk(e):
                if isinstance(x, ast.Name) and isinstance(x.ctx, ast.Load) and x.id not in names:
                    names.add(x.id)
                    for a in ast.walk(f.node):
                        if isinstance(a, ast.Assign) and any(isinstance(t, ast.Name) and t.id == x.id for t in a.targets):
                            exprs.append(a.value)
                            work.append(a.value)
        inst = {"node identity": norm(n)[:100], "built from": norm(src)[:80]}
        r.instances.append(inst)
        lossy = any(isinstance(x, ast.Call) and isinstance(x.func, ast.Attribute) and x.func.attr == "simplify" for e in exprs for x in ast.walk(e))
        str_elt = isinstance(g.elt, ast.Call) and norm(g.elt.func) in ("str", "repr")
        if lossy and str_elt:
            r.fail(Finding("R-NODEKEY", f"R-NODEKEY|{f.qualname}|{n.targets[0].id}", f"{f.file}:{n.lineno}",
                           f"`{norm(n)[:100]}`: the node identity is built from the simplified path; the strings of simplified parts are not injective "
                           f"(the keys 1 and '1' both give '1'), so rules for different nodes are merged into one documentation node", []))
        elif str_elt:
            r.ok()
        else:
            r.undecided.append(inst)
    if not r.instances:
        r.instances.append({"node identity": "no `tuple(str(..) for ..)` key found"})
        r.undecided.append({"what": "node identity keys not in the recognised form"})
    # the string of a part is its repr: it must be the full repr (no abbreviation) or distinct keys collide
    for cq, c in sorted(prog.classes.items()):
        if c.module.name not in ("conditions", "datapath"):
            continue
        for mname in ("__repr__", "__str__"):
            m = c.methods.get(mname)
            if m is None:
                continue
            lossy = None
            for n in ast.walk(m.node):
                if isinstance(n, ast.Call) and norm(n.func).split(".")[0] in ("reprlib", "textwrap"):
                    lossy = n
                elif isinstance(n, ast.Call) and norm(n.func) in ("shorten", "truncate"):
                    lossy = n
                elif isinstance(n, ast.Subscript) and isinstance(n.slice, ast.Slice) and not norm(n.value).startswith(("self.children", "self.parts")):
                    lossy = n
                elif isinstance(n, ast.FormattedValue) and n.format_spec is not None and any(isinstance(x, ast.Constant) and isinstance(x.value, str) and "." in x.value for x in ast.walk(n.format_spec)):
                    lossy = n
            inst = {"repr feeding node identity": f"{cq}.{mname}", "abbreviates": norm(lossy)[:60] if lossy is not None else None}
            r.instances.append(inst)
            if lossy is None:
                r.ok()
            else:
                r.fail(Finding("R-NODEKEY", f"R-NODEKEY|{cq}.{mname}|lossy", f"{m.file}:{lossy.lineno}",
                               f"`{norm(lossy)[:70]}` in {cq}.{mname} abbreviates the text of a condition / part; the documentation tree identifies a node by `str(part)` of its path parts, "
                               f"so two long keys that differ only in the abbreviated middle are merged into one node", []))
    # a key named by a key condition gets its node through the *plain-part conversion* of the path constructor
    # (`DataPath(key)` / `path / key`), the same conversion that gives a rule written with that plain key its
    # parts: an explicit part class chooses differently for some key types (an int key is a map-or-list part)
    part_classes = {c.name for c in prog.cls("datapath.ContainerValue").all_subclasses(include_self=True)}
    seen_ext = False
    for lp in [n for n in ast.walk(f.node) if isinstance(n, ast.For) and isinstance(n.target, ast.Name)]:
        it = norm(lp.iter)
        if not (it.endswith(".callable.args") or it.endswith(".callable.kwargs.values()")):
            continue
        k = lp.target.id
        for n in ast.walk(lp):
            if not (isinstance(n, ast.BinOp) and isinstance(n.op, ast.Div)):
                continue
            op = n.right
            if k not in {x.id for x in ast.walk(op) if isinstance(x, ast.Name)}:
                continue
            seen_ext = True
            inst = {"named key extends the path by": norm(op)}
            r.instances.append(inst)
            if (isinstance(op, ast.Name) and op.id == k) or (isinstance(op, ast.Call) and norm(op.func) == "DataPath" and len(op.args) == 1 and not op.keywords and norm(op.args[0]) == k):
                r.ok()
            elif isinstance(op, ast.Call) and norm(op.func).split(".")[-1] in part_classes:
                r.fail(Finding("R-NODEKEY", f"R-NODEKEY|{f.qualname}|named-key-part", f"{f.file}:{n.lineno}",
                               f"`{norm(n)[:90]}`: the node of a key named by a key condition is built with the explicit part class `{norm(op.func)}`; a rule written with the same plain key "
                               f"gets its part from the path constructor's conversion (an int key becomes a map-or-list part), so for such keys the named key and its own rule land on different nodes", []))
            else:
                r.undecided.append(inst)
    if not seen_ext:
        r.instances.append({"named key extends the path by": None})
    # the root component is put back on every node *before* nesting moves nodes below their parents
    nest_if = next((i for i, st in enumerate(f.node.body) if isinstance(st, ast.If) and isinstance(st.test, ast.Name) and st.test.id in [p.name for p in f.params] and "nest" in st.test.id), None)
    restore = [i for i, st in enumerate(f.node.body) for n in ast.walk(st)
               if isinstance(n, ast.Assign) and isinstance(n.targets[0], ast.Subscript) and isinstance(n.targets[0].slice, ast.Constant) and n.targets[0].slice.value in ("path", "path_str")
               and any(isinstance(x, ast.Subscript) and isinstance(x.slice, ast.UnaryOp) for x in ast.walk(n.value)) and isinstance(st, (ast.If, ast.For))]
    inst = {"root component restored at statements": sorted(set(restore)), "nesting at statement": nest_if}
    r.instances.append(inst)
    if nest_if is None or not restore:
        r.undecided.append(inst)
    elif max(restore) < nest_if:
        r.ok()
    else:
        st = f.node.body[max(restore)]
        r.fail(Finding("R-NODEKEY", f"R-NODEKEY|{f.qualname}|restore-after-nesting", f"{f.file}:{st.lineno}",
                       "the last component of `from_path` is put back on the node paths after the nodes were nested: only the top-level node still sits in the list then, "
                       "so every descendant keeps a path relative to the sub-tree root (flat and nested forms differ, a child's parent is no prefix of it)", []))
    return r


def rule_exhaust(ctx):
    """A table of the tree builder that is subscripted with the container kind of a path part must
    have an entry for every kind a part class declares (`CONTAINER_TYPE`): an integer key is a
    map-or-list part, whose kind is neither MAP nor LIST."""
    prog = ctx.prog
    r = RuleResult("R-EXHAUST", floor=1)
    from ..anchors import tree_builder
    f = tree_builder(prog)
    kinds = {}
    for c in prog.classes.values():
        v = c.attrs.get("CONTAINER_TYPE")
        if isinstance(v, ast.Attribute) and isinstance(v.value, ast.Name):
            kinds[norm(v)] = c.qualname
    tables = {}
    for n in ast.walk(f.node):
        if isinstance(n, ast.Assign) and len(n.targets) == 1 and isinstance(n.targets[0], ast.Name) and isinstance(n.value, ast.Dict) and n.value.keys \
                and all(isinstance(k, ast.Attribute) and norm(k) in kinds or (isinstance(k, ast.Attribute) and norm(k).split(".")[0] == next(iter(kinds)).split(".")[0]) for k in n.value.keys):
            tables[n.targets[0].id] = n
    for name, n in tables.items():
        keys = {norm(k) for k in n.value.keys}
        uses = [x for x in ast.walk(f.node) if isinstance(x, ast.Subscript) and isinstance(x.value, ast.Name) and x.value.id == name and isinstance(x.ctx, ast.Load)]
        guarded = all(any(isinstance(p, ast.Try) for p in _par(u)) or any(f"in {name}" in t for t in _facts_txt(prog, f, u)) for u in uses)
        missing = sorted(set(kinds) - keys)
        inst = {"table": name, "keys": sorted(keys), "container kinds declared by part classes": kinds, "missing": missing, "lookups": [norm(u) for u in uses]}
        r.instances.append(inst)
        if not missing or guarded:
            r.ok()
        else:
            r.fail(Finding("R-EXHAUST", f"R-EXHAUST|{f.qualname}|{name}", f"{f.file}:{n.lineno}",
                           f"`{name}` has no entry for {missing} (declared by {[kinds[m] for m in missing]}) but is subscripted unguarded with a part's container kind "
                           f"({[norm(u) for u in uses]}): a rule whose last part is a plain integer key makes the tree builder raise KeyError", []))
    if not tables:
        r.instances.append({"table": "none keyed by container kinds"})
        r.undecided.append({"what": "no table keyed by Container members in the tree builder"})
    return r


def _facts_txt(prog, f, node):
    from .astutil import facts_at
    return facts_at(prog, f, node, lambda e: " ".join(ast.unparse(e).split()))


def _par(n):
    p = n
    while hasattr(p, "_parent"):
        p = p._parent
        yield p


def rule_always(ctx):
    prog = ctx.prog
    r = RuleResult("R-ALWAYS", floor=2)
    for q in ("conditions.ConditionLike.get_always_applicable_key_conditions", "conditions.ConditionLike.get_always_applicable_type_like_conditions"):
        f = prog.flat(q)
        gate = next((n for n in f.node.body if isinstance(n, ast.If)), None)
        inst = {"function": q, "gate": norm(gate.test) if gate else None}
        r.instances.append(inst)
        src_ok = any(isinstance(n, ast.Assign) and norm(n.value) == "self.flatten()" for n in f.node.body)
        loops_outside = [n for n in f.node.body if isinstance(n, ast.For)]
        if gate is not None and norm(gate.test) in ("not binary_ops or set(binary_ops) == {'and'}",) and src_ok and not loops_outside and not gate.orelse:
            r.ok()
        elif gate is None or loops_outside:
            r.fail(Finding("R-ALWAYS", f"R-ALWAYS|{q}", f"{f.file}:{f.node.lineno}",
                           "conditions may be reported as always applicable only when the combination uses no operator or only `and` (gate missing or a collection loop outside it)", []))
        else:
            t = norm(gate.test)
            if "or" in t.split("==")[-1] and "'or'" in t or "'xor'" in t:
                r.fail(Finding("R-ALWAYS", f"R-ALWAYS|{q}", f"{f.file}:{gate.lineno}", f"gate `{t}` admits or / xor combinations, whose operands do not always apply", []))
            else:
                r.undecided.append(inst)
    return r
