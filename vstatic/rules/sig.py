"""R-SIG / R-LADDER / R-TABLE / R-CONV / R-TOKENS / R-CASTINV: signatures, dispatch ladders and
constant tables of the spec reader and writer must agree (C01, C09, C11, C13)."""

from __future__ import annotations

import ast

from .. import AnalysisError
from ..finite import (AttrObj, ClassRef, ConstEval, FuncRef, TypeRef, Undecidable, allowed_sets,
                      local_tables, module_table, run_block)
from ..hints import dsl_bindings
from ..anchors import condition_parser, condition_writer, path_parser
from ..program import FuncInfo, norm, head
from ..report import Finding, RuleResult

ACCEPTED_KINDS = ("POSITIONAL_OR_KEYWORD", "VAR_POSITIONAL", "VAR_KEYWORD")


def _bucket(params):
    out = {k: [] for k in ACCEPTED_KINDS}
    other = []
    for p in params:
        if p.kind in out:
            out[p.kind].append(p.name)
        else:
            other.append(p)
    return out, other


# ------------------------------------------------------------------------------------------
def rule_sig(ctx):
    """Binding of every DSL constructor to its comparison function."""
    prog = ctx.prog
    r = RuleResult("R-SIG", floor=20)
    binds = dsl_bindings(prog)
    callables = prog.module("callables")
    bound = set()
    # names a spec can reach at the callable getattr site
    fs = condition_parser(prog)
    reach = None
    for call, (txt, allowed) in allowed_sets(prog, fs).items():
        if "call" in txt:
            reach = allowed
    for (c, f, ent, call) in binds:
        bound.add(ent.name)
        where = f"{f.file}:{f.node.lineno}"
        inst = {"constructor": f.qualname, "callable": ent.qualname}
        r.instances.append(inst)
        problems = []
        if f.name != ent.name:
            problems.append(f"constructor `{f.name}` binds the differently named callable `{ent.name}`")
        mp = f.params[1:]
        cp = ent.params[1:]
        if [(p.name, p.kind) for p in mp] != [(p.name, p.kind) for p in cp]:
            problems.append(f"parameters {[(p.name, p.kind) for p in mp]} differ from the callable's {[(p.name, p.kind) for p in cp]} (after the item)")
        _, other = _bucket(mp)
        if other:
            problems.append(f"parameter kinds {[p.kind for p in other]} are not accepted by get_func_args_by_kind")
        # storage convention
        passed_kw = {k.arg: k.value for k in call.keywords if k.arg}
        passed_star = [a.value for a in call.args[1:] if isinstance(a, ast.Starred)]
        passed_pos = [a for a in call.args[1:] if not isinstance(a, ast.Starred)]
        passed_dstar = [k.value for k in call.keywords if k.arg is None]
        for p in mp:
            if p.kind == "POSITIONAL_OR_KEYWORD":
                v = passed_kw.get(p.name)
                if not (isinstance(v, ast.Name) and v.id == p.name):
                    if any(isinstance(a, ast.Name) and a.id == p.name for a in passed_pos):
                        problems.append(f"`{p.name}` is stored positionally; the serialiser reads single / named arguments from the callable's keyword arguments")
                    else:
                        problems.append(f"`{p.name}` is not forwarded as keyword `{p.name}={p.name}`")
            elif p.kind == "VAR_POSITIONAL":
                if not any(isinstance(a, ast.Name) and a.id == p.name for a in passed_star):
                    problems.append(f"`*{p.name}` is not forwarded as `*{p.name}`")
            elif p.kind == "VAR_KEYWORD":
                if not any(isinstance(a, ast.Name) and a.id == p.name for a in passed_dstar):
                    problems.append(f"`**{p.name}` is not forwarded as `**{p.name}`")
        if passed_pos and not any("stored positionally" in x for x in problems):
            problems.append(f"extra positional arguments {[norm(a) for a in passed_pos]} stored")
        # case-fold reachability
        if reach is not None:
            if f.name not in reach:
                problems.append(f"no spec token reaches `{f.name}`: it is not a value of the callable-name table consulted by from_spec")
        elif f.name != f.name.lower():
            problems.append(f"from_spec lower-cases the key tokens, so no spec can name the mixed-case constructor `{f.name}`")
        if problems:
            inst["verdict"] = problems
            for pr in problems:
                r.fail(Finding("R-SIG", f"R-SIG|{f.qualname}|{pr.split(':')[0][:60]}", where,
                               f"{f.qualname} -> callables.{ent.name}: {pr}", [f"{f.qualname} @ {where}: {norm(call)}"]))
        else:
            inst["verdict"] = "name, parameters, kinds, storage convention and spec reachability agree"
            r.ok()
    from ..hints import unresolved_dsl_bindings
    for (c, f, name, call) in unresolved_dsl_bindings(prog):
        r.instances.append({"constructor": f.qualname, "callable": f"callables.{name}", "verdict": "NOT A FUNCTION DEFINITION"})
        r.fail(Finding("R-SIG", f"R-SIG|{f.qualname}|not-a-def", f"{f.file}:{f.node.lineno}",
                       f"{f.qualname} binds `callables.{name}`, which is not defined with `def {name}(...)` in valida/callables.py (assigned / generated): its name and signature - "
                       f"which the parser, the serialiser and condition equality rely on - cannot be read off the source", []))
    for name, fn in callables.functions.items():
        if name.startswith("_"):
            continue
        if name not in bound:
            r.instances.append({"callable": fn.qualname, "verdict": "NO CONSTRUCTOR"})
            r.fail(Finding("R-SIG", f"R-SIG|{fn.qualname}|unbound", f"{fn.file}:{fn.node.lineno}",
                           f"comparison function callables.{name} has no DSL constructor (no classmethod returns cls(call_funcs.{name}, ...))", []))
    # lower-casing must be injective on constructor names
    names = sorted({f.name for (_, f, _, _) in binds})
    low = {}
    for n in names:
        low.setdefault(n.lower(), []).append(n)
    clash = {k: v for k, v in low.items() if len(v) > 1}
    r.instances.append({"check": "lower-casing injective on constructor names", "clashes": clash})
    if clash:
        r.fail(Finding("R-SIG", "R-SIG|case-fold-injective", "valida/conditions.py:1", f"constructor names collide after lower-casing: {clash}", []))
    else:
        r.ok()
    # aliases
    for cq in ("conditions.GeneralCallables", "conditions.MapCallables"):
        c = prog.cls(cq)
        for a, v in c.attrs.items():
            if isinstance(v, ast.Name) and v.id in c.methods:
                r.instances.append({"alias": f"{cq}.{a}", "of": v.id})
                r.ok()
    return r


# ------------------------------------------------------------------------------------------
class SigPath:
    """The statements a function executes for one callable signature: the function is walked
    with the result of `get_func_args_by_kind(..)` bound to the signature's buckets; locals
    computed from it are evaluated, `if`s whose test is decidable take one branch, the others
    are walked on both sides.  Not tied to variable names or to if/elif versus early return."""

    def __init__(self, prog, func, buckets):
        self.prog, self.func, self.buckets = prog, func, buckets
        self.env = {}
        self.bound = False
        self.subject = None      # expression whose signature is dispatched on
        self.stmts = []          # simple statements on the path, in order
        self.raised = None       # Raise reached on a fully decided path
        self.returned = []
        self.undecidable = []
        self.ev = ConstEval(prog, func.module, {})
        self.ev.env = self.env     # shared: bindings made on the way are visible to the evaluator
        self._block(func.node.body, True)

    def _try(self, e):
        try:
            return True, self.ev.ev(e)
        except Undecidable:
            return False, None
        except Exception:
            return False, None

    def _uses_env(self, e):
        return any(isinstance(n, ast.Name) and n.id in self.env for n in ast.walk(e))

    def _block(self, stmts, decided):
        """Returns False when the path has ended (return / raise on a decided path)."""
        for st in stmts:
            if isinstance(st, ast.Assign) and len(st.targets) == 1 and isinstance(st.targets[0], ast.Name):
                v = st.value
                if isinstance(v, ast.Call) and norm(v.func).split(".")[-1] == "get_func_args_by_kind":
                    self.env[st.targets[0].id] = self.buckets
                    self.bound = True
                    self.subject = v.args[0] if v.args else None
                    self.stmts.append(st)
                    continue
                if self.bound and self._uses_env(v):
                    ok, val = self._try(v)
                    if ok:
                        self.env[st.targets[0].id] = val
                    else:
                        self.env.pop(st.targets[0].id, None)
                else:
                    self.env.pop(st.targets[0].id, None)
                self.stmts.append(st)
                continue
            if isinstance(st, ast.If):
                if self.bound and self._uses_env(st.test):
                    ok, val = self._try(st.test)
                    if ok:
                        if not self._block(st.body if val else st.orelse, decided):
                            return False
                        continue
                    # a test that also looks at other locals of the function (the argument value, say) is not a
                    # pure signature dispatch: both sides are walked.  Anything else is a dispatch test the
                    # evaluator cannot follow: the instance is undecided.
                    local_names = {x.id for x in ast.walk(self.func.node) if isinstance(x, ast.Name) and isinstance(x.ctx, ast.Store)} | {p.name for p in self.func.params}
                    others = {x.id for x in ast.walk(st.test) if isinstance(x, ast.Name) and x.id not in self.env and x.id in local_names}
                    if not others:
                        self.undecidable.append(norm(st.test))
                a = self._block(st.body, False)
                b = self._block(st.orelse, False)
                continue
            if isinstance(st, ast.Raise):
                self.stmts.append(st)
                if decided and self.bound:
                    self.raised = st
                    return False
                continue
            if isinstance(st, ast.Return):
                self.stmts.append(st)
                self.returned.append(st)
                if decided:
                    return False
                continue
            if isinstance(st, (ast.For, ast.While, ast.With)):
                self.stmts.append(st)
                continue
            if isinstance(st, ast.Try):
                self._block(st.body, False)
                for h in st.handlers:
                    self._block(h.body, False)
                self._block(st.orelse, False)
                self._block(st.finalbody, False)
                continue
            self.stmts.append(st)
        return True

    def after_binding(self):
        out, seen = [], False
        for st in self.stmts:
            if seen:
                out.append(st)
            elif isinstance(st, ast.Assign) and isinstance(st.value, ast.Call) and norm(st.value.func).split(".")[-1] == "get_func_args_by_kind":
                seen = True
        return out


def _reader_form(path: SigPath):
    """How the path calls the constructor: (), (v), (*v), (**v) or raise."""
    forms = set()
    subj = norm(path.subject) if path.subject is not None else "cond_method"
    for st in path.after_binding():
        for n in ast.walk(st):
            if isinstance(n, ast.Call) and norm(n.func) == subj:
                if not n.args and not n.keywords:
                    forms.add("()")
                elif len(n.args) == 1 and isinstance(n.args[0], ast.Starred):
                    forms.add("*" if isinstance(n.args[0].value, ast.Name) else "*<transformed sequence>")
                elif len(n.args) == 1 and not n.keywords:
                    forms.add("v")
                elif not n.args and len(n.keywords) == 1 and n.keywords[0].arg is None:
                    # the mapping must be handed over as it is: its keys are the constructor's parameter names
                    forms.add("**" if isinstance(n.keywords[0].value, ast.Name) else "**<transformed mapping>")
                else:
                    forms.add("?")
    return forms, path.raised is not None


def _emitted_var(writer: FuncInfo):
    """The expression emitted as the spec value: the value of the single-item dict the writer builds."""
    for n in ast.walk(writer.node):
        if isinstance(n, ast.Dict) and len(n.keys) == 1 and n.keys[0] is not None and not isinstance(n.keys[0], ast.Constant):
            return n.values[0]
    return None


def _classify_emitted(e):
    if isinstance(e, ast.Constant):
        return "None" if e.value is None else "other"
    v = ast.unparse(e)
    if "next(iter(" in v and "kwargs" in v:
        return "single"
    if "kwargs" in v and "next(" not in v:
        return "dict"
    if ".args" in v:
        return "list"
    return None


def _writer_form(path: SigPath, writer: FuncInfo):
    """None | single | dict | list (recognised), raise, other (a concrete value that is none of
    these), ? (the emitted value could not be traced: undecided)."""
    if path.raised is not None:
        return "raise"
    cur = _emitted_var(writer)
    if cur is None:
        return "?"
    stmts = path.after_binding()

    def assigns(name):
        return [a for a in stmts if isinstance(a, ast.Assign) and isinstance(a.targets[0], ast.Name) and a.targets[0].id == name]
    seen = set()
    for _ in range(10):
        if not isinstance(cur, ast.Name):
            c = _classify_emitted(cur)
            if c is not None and c != "other":
                return c
            # a conversion applied to another local: follow that local
            loc = [n for n in ast.walk(cur) if isinstance(n, ast.Name) and isinstance(n.ctx, ast.Load) and assigns(n.id) and n.id not in seen]
            if not loc:
                return "other"
            cur = loc[-1]
            continue
        if cur.id in seen:
            return "?"
        seen.add(cur.id)
        asg = assigns(cur.id)
        if not asg:
            return "?"
        # prefer the structural definition (mentions the stored arguments) over copies / conversions
        defining = [a for a in asg if _classify_emitted(a.value) not in (None, "other")]
        if defining:
            return _classify_emitted(defining[-1].value)
        cur = asg[-1].value
    return "?"


def rule_ladder(ctx):
    """Reader (from_spec) and writer (to_json_like) dispatch ladders evaluated for every
    constructor signature: exactly one non-raising branch, compatible shapes."""
    prog = ctx.prog
    r = RuleResult("R-LADDER", floor=20)
    reader = condition_parser(prog)
    writer = condition_writer(prog)
    expect = {"()": "None", "v": "single", "*": "list", "**": "dict"}
    for (c, f, ent, call) in dsl_bindings(prog):
        rb, other = _bucket(f.params[1:])
        wb, _ = _bucket(ent.params[1:])
        inst = {"constructor": f.qualname, "reader_buckets": {k: len(v) for k, v in rb.items()}}
        r.instances.append(inst)
        where = f"{f.file}:{f.node.lineno}"
        rpath = SigPath(prog, reader, rb)
        wpath = SigPath(prog, writer, wb)
        if not rpath.bound or not wpath.bound:
            raise AnalysisError("dispatch on get_func_args_by_kind(..) not found in the condition reader / writer")
        if rpath.undecidable or wpath.undecidable:
            inst["verdict"] = f"undecided (dispatch test not evaluable: {(rpath.undecidable + wpath.undecidable)[:2]})"
            r.undecided.append(inst)
            continue
        rforms, rraises = _reader_form(rpath)
        wform = _writer_form(wpath, writer)
        ri = "raise" if rraises else "taken"
        wi = "raise" if wpath.raised is not None else "taken"
        inst["reader_calls"] = sorted(rforms)
        inst["writer_emits"] = wform
        npos = len(rb["POSITIONAL_OR_KEYWORD"])
        want = None
        if not any(rb.values()):
            want = {"()"}
        elif npos == 1 and not rb["VAR_POSITIONAL"] and not rb["VAR_KEYWORD"]:
            want = {"v"}
        elif npos > 1 and not rb["VAR_POSITIONAL"] and not rb["VAR_KEYWORD"]:
            want = {"*", "**"}
        elif rb["VAR_POSITIONAL"] and not npos and not rb["VAR_KEYWORD"]:
            want = {"*"}
        elif rb["VAR_KEYWORD"] and not rb["VAR_POSITIONAL"]:
            want = {"**"}
        problems = []
        if not rforms:
            problems.append(f"reader branch {ri} never calls the constructor for signature {inst['reader_buckets']} (spec cannot build it)")
        elif want is not None and not (rforms <= want and rforms):
            problems.append(f"reader branch {ri} calls the constructor as {sorted(rforms)}, which does not bind its parameters {inst['reader_buckets']} (expected {sorted(want)})")
        if wform == "?":
            inst["verdict"] = "undecided (emitted spec value not traceable)"
            r.undecided.append(inst)
            continue
        if wform in ("raise", "other"):
            problems.append(f"writer branch {wi} does not emit a spec value for this signature ({wform})")
        elif rforms and not any(expect.get(x) == wform for x in rforms):
            problems.append(f"writer emits `{wform}` but the reader consumes {sorted(rforms)} for the same callable")
        if problems:
            inst["verdict"] = problems
            for pr in problems:
                r.fail(Finding("R-LADDER", f"R-LADDER|{f.qualname}|{pr[:50]}", where, f"{f.qualname}: {pr}", []))
        else:
            inst["verdict"] = "one branch each; shapes agree"
            r.ok()
    return r


# ------------------------------------------------------------------------------------------
def rule_tables_c09(ctx):
    prog = ctx.prog
    r = RuleResult("R-TABLE/C09", floor=4)
    fs = condition_parser(prog)
    t = local_tables(prog, fs)
    where = f"{fs.file}:{fs.node.lineno}"
    for name in ("BINARY_OPS", "CONDITION_DATUM_TYPES", "CALLABLE_LOOKUP", "PRE_PROC_LOOKUP", "DTYPE_LOOKUP"):
        if name not in t:
            raise AnalysisError(f"table {name} in from_spec not found / not a closed constant")
    ctor = {f.name for (_, f, _, _) in dsl_bindings(prog)}
    value, key = prog.cls("conditions.Value"), prog.cls("conditions.Key")
    # PRE_PROC_LOOKUP values are classproperties of Value and Key
    for k, v in t["PRE_PROC_LOOKUP"].items():
        inst = {"table": "PRE_PROC_LOOKUP", "entry": f"{k!r}: {v!r}"}
        r.instances.append(inst)
        ok = all(isinstance(c.lookup(v)[1], FuncInfo) and c.lookup(v)[1].kind == "classproperty" for c in (value, key))
        if ok:
            r.ok()
        else:
            r.fail(Finding("R-TABLE/C09", f"R-TABLE|PRE_PROC_LOOKUP|{k}", where, f"PRE_PROC_LOOKUP[{k!r}] = {v!r} is not a classproperty of both Value and Key", []))
    for k, v in t["CALLABLE_LOOKUP"].items():
        inst = {"table": "CALLABLE_LOOKUP", "entry": f"{k!r}: {v!r}"}
        r.instances.append(inst)
        if v not in ctor:
            r.fail(Finding("R-TABLE/C09", f"R-TABLE|CALLABLE_LOOKUP|{k}", where, f"CALLABLE_LOOKUP[{k!r}] = {v!r} is not a DSL constructor", []))
        elif isinstance(v, str) and v.rstrip("_") != k:
            r.fail(Finding("R-TABLE/C09", f"R-TABLE|CALLABLE_LOOKUP|{k}|alias", where, f"CALLABLE_LOOKUP[{k!r}] = {v!r}: a callable alias may only drop the trailing underscore of a Python keyword clash ('in' -> 'in_')", []))
        else:
            r.ok()
    # documented pre-processor aliases: type / dtype and len / length
    alias_of = {"type": "dtype", "dtype": "dtype", "len": "length", "length": "length"}
    for k, v in t["PRE_PROC_LOOKUP"].items():
        inst = {"table": "PRE_PROC_LOOKUP alias", "entry": f"{k!r}: {v!r}"}
        r.instances.append(inst)
        if k in alias_of and alias_of[k] != v:
            r.fail(Finding("R-TABLE/C09", f"R-TABLE|PRE_PROC_LOOKUP|{k}|alias", where, f"PRE_PROC_LOOKUP[{k!r}] = {v!r}: the documented alias `{k}` means `{alias_of[k]}`", []))
        else:
            r.ok()
    missing_alias = sorted(set(alias_of) - set(t["PRE_PROC_LOOKUP"]))
    if missing_alias:
        r.fail(Finding("R-TABLE/C09", "R-TABLE|PRE_PROC_LOOKUP|missing", where, f"documented pre-processor spellings {missing_alias} are no longer accepted", []))
    # type names agree with the serialiser's inverse table
    try:
        inv = module_table(prog, prog.module("conditions"), "INV_DTYPE_LOOKUP")
        for ty, nm in inv.items():
            inst = {"table": "DTYPE_LOOKUP vs INV_DTYPE_LOOKUP", "entry": f"{nm!r}"}
            r.instances.append(inst)
            if t["DTYPE_LOOKUP"].get(nm) == ty:
                r.ok()
            else:
                r.fail(Finding("R-TABLE/C09", f"R-TABLE|DTYPE_LOOKUP|{nm}|inverse", where, f"type name {nm!r} parses to {t['DTYPE_LOOKUP'].get(nm)!r} but is the written name of {ty!r}", []))
    except Undecidable:
        pass
    # DTYPE_LOOKUP: every name maps to a type that is also an identity entry
    d = t["DTYPE_LOOKUP"]
    for k, v in d.items():
        inst = {"table": "DTYPE_LOOKUP", "entry": f"{k!r}: {v!r}"}
        r.instances.append(inst)
        if isinstance(k, str):
            if d.get(v) == v and k == k.lower():
                r.ok()
            else:
                r.fail(Finding("R-TABLE/C09", f"R-TABLE|DTYPE_LOOKUP|{k}", where, f"DTYPE_LOOKUP[{k!r}] = {v!r}: the type has no identity entry (or the name is not lower-case, so the lower-cased token cannot match it)", []))
        else:
            if v == k:
                r.ok()
            else:
                r.fail(Finding("R-TABLE/C09", f"R-TABLE|DTYPE_LOOKUP|{k}", where, f"DTYPE_LOOKUP[{k!r}] = {v!r}: a type key must map to itself", []))
    # datum kinds and operators
    exp_ops = {"and": "conditions.ConditionAnd", "or": "conditions.ConditionOr", "xor": "conditions.ConditionXor"}
    for k, v in t["BINARY_OPS"].items():
        r.instances.append({"table": "BINARY_OPS", "entry": f"{k!r}: {v!r}"})
        sym = None
        if isinstance(v, ClassRef):
            e = prog.classes[v.qualname].lookup("FLATTEN_SYMBOL")[1]
            sym = e.value if isinstance(e, ast.Constant) else None
        if sym == k:
            r.ok()
        else:
            r.fail(Finding("R-TABLE/C09", f"R-TABLE|BINARY_OPS|{k}", where, f"BINARY_OPS[{k!r}] = {v!r} whose FLATTEN_SYMBOL is {sym!r}: the spec key and the class' own operator symbol differ", []))
    for k, v in t["CONDITION_DATUM_TYPES"].items():
        r.instances.append({"table": "CONDITION_DATUM_TYPES", "entry": f"{k!r}: {v!r}"})
        lab = None
        if isinstance(v, ClassRef):
            e = prog.classes[v.qualname].lookup("js_like_label")[1]
            lab = e.value if isinstance(e, ast.Constant) else None
        if lab == k:
            r.ok()
        else:
            r.fail(Finding("R-TABLE/C09", f"R-TABLE|CONDITION_DATUM_TYPES|{k}", where, f"CONDITION_DATUM_TYPES[{k!r}] = {v!r} whose js_like_label is {lab!r}", []))
    return r


def rule_tables_c11(ctx):
    prog = ctx.prog
    r = RuleResult("R-TABLE/C11", floor=7)
    cond = prog.module("conditions")
    inv = module_table(prog, cond, "INV_DTYPE_LOOKUP")
    fs = condition_parser(prog)
    d = local_tables(prog, fs).get("DTYPE_LOOKUP")
    if d is None:
        raise AnalysisError("DTYPE_LOOKUP not evaluable")
    where = "valida/conditions.py:25"
    for t, n in inv.items():
        r.instances.append({"INV_DTYPE_LOOKUP": f"{t!r}: {n!r}", "DTYPE_LOOKUP[name]": repr(d.get(n))})
        if d.get(n) == t:
            r.ok()
        else:
            r.fail(Finding("R-TABLE/C11", f"R-TABLE|INV_DTYPE_LOOKUP|{n}", where, f"INV_DTYPE_LOOKUP[{t!r}] = {n!r} but DTYPE_LOOKUP[{n!r}] = {d.get(n)!r}: the written type name parses back to a different type", []))
    for k, v in d.items():
        if not isinstance(k, str):
            r.instances.append({"DTYPE_LOOKUP type": repr(k), "has_inverse": k in inv})
            if k in inv:
                r.ok()
            else:
                r.fail(Finding("R-TABLE/C11", f"R-TABLE|DTYPE_LOOKUP-noinv|{k}", where, f"type {k!r} is accepted by the reader (DTYPE_LOOKUP) but has no name in INV_DTYPE_LOOKUP: a condition on it cannot be serialised", []))
    return r


# ------------------------------------------------------------------------------------------
def rule_conv(ctx):
    """Every conversion the reader applies to argument values has an inverse in the writer
    for the same value shapes (scalar / list of types; data-path arguments)."""
    prog = ctx.prog
    r = RuleResult("R-CONV", floor=3)
    reader = condition_parser(prog)
    writer = condition_writer(prog)
    where = f"{writer.file}:{writer.node.lineno}"
    # reader: DTYPE_LOOKUP applied to scalar and to each element of a list?
    def _itemwise(node, table_pred):
        """A comprehension / loop applying a name->type table to each element."""
        def sub_on_table(x):
            return any(isinstance(y, ast.Subscript) and isinstance(y.value, ast.Name) and table_pred(y.value.id) for y in ast.walk(x))
        for n in ast.walk(node):
            if isinstance(n, ast.ListComp) and sub_on_table(n.elt):
                return True
            if isinstance(n, ast.For) and any(sub_on_table(b) for b in n.body):
                return True
        return False
    rsrc = ast.unparse(reader.node)
    reader_list = _itemwise(reader.node, lambda nm: "dtype_lookup" in nm.lower() and "inv" not in nm.lower())
    # writer path for a single-parameter callable
    wpath = SigPath(prog, writer, {"POSITIONAL_OR_KEYWORD": ["value"], "VAR_POSITIONAL": [], "VAR_KEYWORD": []})
    if not wpath.bound:
        raise AnalysisError("writer: dispatch on get_func_args_by_kind(..) not found")
    if _writer_form(wpath, writer) != "single":
        r.instances.append({"conversion": "writer path of a single-parameter callable", "verdict": "undecided (path not recognised)"})
        r.undecided.append({"what": "writer single-argument path not recognised"})
        single = []
    else:
        single = wpath.after_binding()
    handles_list = any(_itemwise(st, lambda nm: "inv_dtype_lookup" in nm.lower()) for st in single) or not single
    uses_inv = any(isinstance(n, ast.Subscript) and isinstance(n.value, ast.Name) and "inv_dtype_lookup" in n.value.id.lower() for st in single for n in ast.walk(st))
    if single and not uses_inv:
        # the conversion is done by other means than the inverse table: not judged here
        r.instances.append({"conversion": "type name <-> type for a list argument", "verdict": "undecided (writer does not use the inverse type table on this path)"})
        r.undecided.append({"what": "writer list conversion by other means than the inverse table"})
        handles_list = True
    inst = {"conversion": "type name <-> type for a list argument of a single-parameter callable", "reader_item_wise": reader_list, "writer_item_wise": handles_list}
    r.instances.append(inst)
    if reader_list and not handles_list:
        r.fail(Finding("R-CONV", "R-CONV|conditions.Condition.to_json_like|list of types", where,
                       "the reader converts type names item-wise for a list argument, but the writer's single-parameter branch applies INV_DTYPE_LOOKUP[...] to the whole value "
                       "(a list is unhashable: Value.dtype.in_([int, str]).to_json_like() raises TypeError)", []))
    else:
        r.ok()
    # which conditions convert types: the writer's cast_types predicate must cover every constructor for which the reader converts
    rconv = set()
    for n in ast.walk(reader.node):
        if isinstance(n, ast.Compare) and isinstance(n.left, ast.Name) and n.left.id == "cond_call_str" and isinstance(n.ops[0], ast.In):
            try:
                rconv |= set(ConstEval(prog, reader.module).ev(n.comparators[0]))
            except Undecidable:
                pass
    # the writer's conversion predicate: the local that guards every use of the inverse table
    from .astutil import facts_at
    guards = None
    for n in ast.walk(writer.node):
        if isinstance(n, ast.Subscript) and isinstance(n.value, ast.Name) and "inv_dtype_lookup" in n.value.id.lower():
            fs = {x for x in facts_at(prog, writer, n, lambda e: ast.unparse(e)) if x.isidentifier()}
            guards = fs if guards is None else guards & fs
    cast_assign = None
    for g in sorted(guards or ()):
        asg = [n for n in ast.walk(writer.node) if isinstance(n, ast.Assign) and isinstance(n.targets[0], ast.Name) and n.targets[0].id == g]
        if len(asg) == 1:
            cast_assign = asg[0].value
            break
    if cast_assign is None:
        # the writer converts types some other way (a helper function, an unguarded table use): the
        # evaluation of the predicate per constructor cannot be carried out
        r.instances.append({"conversion": "writer's type-conversion predicate", "verdict": "undecided (no local guarding every use of the inverse type table)"})
        r.undecided.append({"what": "writer type-conversion predicate not recognised"})
        cast_assign = ast.Constant(value=True)
    from ..hints import dsl_bindings as _b
    labels = {}
    for cq, c in prog.classes.items():
        lab = c.attrs.get("js_like_label")
        if isinstance(lab, ast.Constant):
            labels[cq] = lab.value
    for (c, f, ent, call) in _b(prog):
        pass
    for name in sorted(rconv):
        for cq, lab in sorted(labels.items()):
            k = prog.classes[cq]
            if k.lookup_method(name) is None:
                continue
            pre = k.lookup("PRE_PROCESSOR")[1]
            env = {"key": f"{lab}.{name}", "callable_name": name, "self": AttrObj(PRE_PROCESSOR=TypeRef(pre.id) if isinstance(pre, ast.Name) else None,
                                                                                 js_like_label=lab, callable=AttrObj(name=name, func=AttrObj(__name__=name)))}
            inst = {"conversion": f"type arguments of {lab}.{name}", "reader_converts": True}
            r.instances.append(inst)
            try:
                v = bool(ConstEval(prog, writer.module, env).ev(cast_assign))
            except Undecidable as e:
                inst["verdict"] = f"undecided ({e})"
                r.undecided.append(inst)
                continue
            inst["writer_converts"] = v
            if v:
                r.ok()
            else:
                r.fail(Finding("R-CONV", f"R-CONV|conditions.Condition.to_json_like|cast_types|{lab}.{name}", where,
                               f"the reader converts type names for `{name}` but the writer's predicate `{norm(cast_assign)}` is False for {lab}.{name}: type objects are emitted raw (not JSON)", []))
    # dtype pre-processor classes
    for cq, lab in sorted(labels.items()):
        k = prog.classes[cq]
        pre = k.lookup("PRE_PROCESSOR")[1]
        if isinstance(pre, ast.Name) and pre.id == "type":
            for name in ("equal_to", "in_"):
                env = {"key": f"{lab}.{name}", "callable_name": name, "self": AttrObj(PRE_PROCESSOR=TypeRef("type"), js_like_label=lab, callable=AttrObj(name=name, func=AttrObj(__name__=name)))}
                inst = {"conversion": f"type arguments of {lab}.{name}", "reader_converts": True}
                r.instances.append(inst)
                try:
                    v = bool(ConstEval(prog, writer.module, env).ev(cast_assign))
                except Undecidable as e:
                    r.undecided.append(inst)
                    continue
                if v:
                    r.ok()
                else:
                    r.fail(Finding("R-CONV", f"R-CONV|conditions.Condition.to_json_like|cast_types|{lab}.{name}", where,
                                   f"the reader converts type names for the dtype pre-processor but the writer's predicate is False for {lab}.{name}", []))
    # data-path arguments
    wsrc = ast.unparse(writer.node)
    inst = {"conversion": "{path...: parts} mapping <-> DataPath argument", "reader_converts": "DataPath.from_spec" in rsrc, "writer_has_branch": "DataPath" in wsrc}
    r.instances.append(inst)
    if inst["reader_converts"] and not inst["writer_has_branch"]:
        r.fail(Finding("R-CONV", "R-CONV|conditions.Condition.to_json_like|no writer branch for DataPath arguments", where,
                       "the reader turns '{path...: parts}' arguments into DataPath objects, but the writer has no branch that turns a DataPath argument back into a spec: "
                       "it is emitted as the raw object (json.dumps fails)", []))
    else:
        r.ok()
    # type -> name by exact lookup: a subclass walk over the table names bool as "int" (bool is a subclass of int)
    inv = writer.module.constants.get("INV_DTYPE_LOOKUP")
    inv_keys = {norm(k) for k in inv.keys} if isinstance(inv, ast.Dict) else set()
    called = {c.func.id for c in ast.walk(writer.node) if isinstance(c, ast.Call) and isinstance(c.func, ast.Name) and c.func.id in writer.module.functions}
    for g in [writer] + [writer.module.functions[n] for n in sorted(called)]:
        for n in ast.walk(g.node):
            if isinstance(n, ast.Call) and isinstance(n.func, ast.Name) and n.func.id == "issubclass" and "INV_DTYPE_LOOKUP" in ast.unparse(g.node):
                inst = {"conversion": f"type -> name by issubclass in {g.qualname}", "table has both int and bool": {"int", "bool"} <= inv_keys}
                r.instances.append(inst)
                if {"int", "bool"} <= inv_keys:
                    r.fail(Finding("R-CONV", f"R-CONV|{g.qualname}|issubclass-naming", f"{g.file}:{n.lineno}",
                                   f"`{norm(n)}`: naming a type by the first table entry it is a subclass of gives `bool` the name of `int` (bool is a subclass of int, and both are in the table): "
                                   f"Value.dtype.equal_to(bool) is written as 'int' and rebuilt as a different condition", []))
    # combinations recurse into both children under their own symbol
    comb = prog.flat("conditions.ConditionBinaryOp.to_json_like")
    ctxt = ast.unparse(comb.node)
    inst = {"combination writer": norm(comb.node.body[-1])}
    r.instances.append(inst)
    from .shape import canon, single_return
    rvc = single_return(comb)
    good = "{self.FLATTEN_SYMBOL: [_v0.to_json_like() for _v0 in self.children]}"
    if rvc is None:
        # several statements: resolve the iterated operand list through its local assignments
        rets = [n for n in ast.walk(comb.node) if isinstance(n, ast.Return) and n.value is not None]
        if len(rets) == 1 and isinstance(rets[0].value, ast.Dict) and len(rets[0].value.values) == 1 and isinstance(rets[0].value.values[0], ast.ListComp) \
                and isinstance(rets[0].value.values[0].generators[0].iter, ast.Name):
            itv = rets[0].value.values[0].generators[0].iter.id
            srcs = [norm(a.value) for a in ast.walk(comb.node) if isinstance(a, ast.Assign) and any(isinstance(t, ast.Name) and t.id == itv for t in a.targets)]
            srcs += [norm(v) for a in ast.walk(comb.node) if isinstance(a, ast.Assign) and isinstance(a.targets[0], ast.Tuple) and isinstance(a.value, ast.Tuple)
                     for t, v in zip(a.targets[0].elts, a.value.elts) if isinstance(t, ast.Name) and t.id == itv]
            tup_src = [norm(a.value) for a in ast.walk(comb.node) if isinstance(a, ast.Assign) and isinstance(a.targets[0], ast.Tuple) and not isinstance(a.value, ast.Tuple)
                       and any(isinstance(t, ast.Name) and t.id == itv for t in a.targets[0].elts)]
            inst["operands iterated"] = {itv: srcs + tup_src}
            other = [x for x in srcs + tup_src if x not in ("self.children", itv)]
            if other:
                r.fail(Finding("R-CONV", "R-CONV|conditions.ConditionBinaryOp.to_json_like|operands", f"{comb.file}:{rets[0].lineno}",
                               f"the serialised operand list `{itv}` can come from {other} instead of `self.children`: anything but the two children themselves (e.g. a flattened chain) "
                               f"loses the grouping, and the reader's left fold rebuilds a differently nested - unequal - combination", []))
                return r
            if srcs and all(x == "self.children" for x in srcs):
                rvc = ast.parse(good, mode="eval").body
        # operand list accumulated in a loop (`ops = []; for i in self.children: ops.append(i.to_json_like())`):
        # exactly one entry per child on every path; splicing a child's own operand list in (extend / +=)
        # flattens a & (b & c) into [a, b, c], which the reader's left fold rebuilds as (a & b) & c (seed C11-m9)
        if rvc is None and len(rets) == 1 and isinstance(rets[0].value, ast.Dict) and len(rets[0].value.values) == 1 and isinstance(rets[0].value.values[0], ast.Name):
            lst = rets[0].value.values[0].id
            def _single(e):   # `[x]`: one entry, the same as append(x)
                return isinstance(e, (ast.List, ast.Tuple)) and len(e.elts) == 1 and not isinstance(e.elts[0], ast.Starred)
            splices = [n for n in ast.walk(comb.node)
                       if (isinstance(n, ast.Call) and isinstance(n.func, ast.Attribute) and isinstance(n.func.value, ast.Name) and n.func.value.id == lst
                           and n.func.attr in ("extend", "__iadd__") and not (len(n.args) == 1 and _single(n.args[0])))
                       or (isinstance(n, ast.AugAssign) and isinstance(n.target, ast.Name) and n.target.id == lst and not _single(n.value))]
            inst["operand list"] = {lst: "accumulated in a loop", "splices": [norm(s) for s in splices]}
            if splices:
                r.fail(Finding("R-CONV", "R-CONV|conditions.ConditionBinaryOp.to_json_like|operands", f"{comb.file}:{splices[0].lineno}",
                               f"`{norm(splices[0])[:100]}` splices several entries into the serialised operand list `{lst}` for one child: a nested combination with the same operator is "
                               f"flattened (a & (b & c) -> [a, b, c]), the reader's left fold rebuilds (a & b) & c, which is not equal to the original", []))
                return r
            loops = [n for n in ast.walk(comb.node) if isinstance(n, ast.For) and norm(n.iter) == "self.children" and isinstance(n.target, ast.Name)]
            inits = [a for a in ast.walk(comb.node) if isinstance(a, ast.Assign) and any(isinstance(t, ast.Name) and t.id == lst for t in a.targets)]

            def _one_append(body, var):
                # every path through `body` appends `<var>.to_json_like()` exactly once
                if len(body) == 1 and isinstance(body[0], ast.Expr) and norm(body[0].value) == f"{lst}.append({var}.to_json_like())":
                    return True
                if len(body) == 1 and isinstance(body[0], ast.If) and body[0].orelse:
                    return _one_append(body[0].body, var) and _one_append(body[0].orelse, var)
                return False
            if len(loops) == 1 and len(inits) == 1 and norm(inits[0].value) == "[]" and not loops[0].orelse and _one_append(loops[0].body, loops[0].target.id):
                rvc = ast.parse(good, mode="eval").body
    if rvc is not None and canon(rvc) == good:
        r.ok()
    elif rvc is not None and isinstance(rvc, ast.Dict) and len(rvc.values) == 1 and isinstance(rvc.values[0], (ast.ListComp, ast.List)):
        r.fail(Finding("R-CONV", "R-CONV|conditions.ConditionBinaryOp.to_json_like", f"{comb.file}:{comb.node.lineno}",
                       f"combination serialisation is `{canon(rvc)}`; it must wrap *every* serialised child under the class' own symbol: `{good}`", []))
    else:
        r.undecided.append(inst)
    return r


# ------------------------------------------------------------------------------------------
def rule_tokens(ctx):
    """Every token of the dotted spec key is accounted for on each accepting branch of
    from_spec: the operator branch must match the *whole* key."""
    prog = ctx.prog
    r = RuleResult("R-TOKENS", floor=2)
    f = condition_parser(prog)
    t = local_tables(prog, f)
    where = f"{f.file}:{f.node.lineno}"
    found = 0
    for n in ast.walk(f.node):
        if isinstance(n, ast.If):
            tt = ast.unparse(n.test)
            if "BINARY_OPS" in tt and isinstance(n.test, (ast.Compare, ast.BoolOp)):
                found += 1
                inst = {"branch": "binary operator", "test": tt}
                r.instances.append(inst)
                whole = False
                for c in ast.walk(n.test):
                    if isinstance(c, ast.Compare) and isinstance(c.ops[0], ast.In) and ast.unparse(c.comparators[0]) == "BINARY_OPS":
                        l = ast.unparse(c.left)
                        if l in ("spec_key", "spec_key.lower()"):
                            whole = True
                if "spec_key_split_len == 1" in tt or "len(spec_key_split) == 1" in tt:
                    whole = True
                dotted = [k for k in t.get("BINARY_OPS", {}) if "." in str(k)]
                if whole and not dotted:
                    inst["verdict"] = "matches the whole key"
                    r.ok()
                else:
                    r.fail(Finding("R-TOKENS", "R-TOKENS|conditions.ConditionLike.from_spec|binary-op branch", f"{f.file}:{n.lineno}",
                                   f"the operator branch test `{tt}` does not constrain the whole spec key: keys such as 'and.equal_to' would be accepted as an operator with their extra tokens ignored", []))
            if "CONDITION_DATUM_TYPES" in tt and isinstance(n.test, ast.Compare):
                found += 1
                inst = {"branch": "datum condition", "test": tt}
                r.instances.append(inst)
                # the first statement of the branch must reject wrong token counts
                first = n.body[0] if n.body else None
                ok = isinstance(first, ast.If) and "spec_key_split_len not in [2, 3]" in ast.unparse(first.test) and any(isinstance(x, ast.Raise) for x in first.body)
                if ok:
                    inst["verdict"] = "token count restricted to 2 or 3 before any token is used"
                    r.ok()
                else:
                    inst["verdict"] = "undecided (token-count guard not in the recognised form)"
                    r.undecided.append(inst)
    if found < 2:
        raise AnalysisError("from_spec dispatch branches on BINARY_OPS / CONDITION_DATUM_TYPES not found")
    # data-path spec keys: the first token must *be* "path", and the escape must look at every key
    pp = path_parser(prog)
    ptab = local_tables(prog, pp)

    def is_path_word(a):
        return (isinstance(a, ast.Constant) and a.value == "path") or (isinstance(a, ast.Name) and ptab.get(a.id) == "path")
    pref = [n for n in ast.walk(pp.node) if isinstance(n, ast.Call) and isinstance(n.func, ast.Attribute) and n.func.attr in ("startswith", "endswith") and any(is_path_word(a) for a in n.args)]
    eqs = [n for n in ast.walk(pp.node) if isinstance(n, ast.Compare) and isinstance(n.ops[0], (ast.Eq, ast.NotEq)) and any(is_path_word(c) for c in [n.left] + n.comparators)]
    inst = {"branch": "data-path key", "equality tests on 'path'": [norm(e) for e in eqs], "prefix tests": [norm(p_) for p_ in pref]}
    r.instances.append(inst)
    if pref and not eqs:
        r.fail(Finding("R-TOKENS", f"R-TOKENS|{pp.qualname}|prefix", f"{pp.file}:{pref[0].lineno}",
                       f"`{norm(pref[0])}`: a mapping is a data-path spec only if its key's first token *is* 'path'; a prefix test also turns literal mappings such as {{'pathname': ...}} into paths", []))
    elif eqs:
        r.ok()
    else:
        r.undecided.append(inst)
    esc_ret = [n for n in ast.walk(pp.node) if isinstance(n, ast.Return) and isinstance(n.value, (ast.DictComp, ast.Dict, ast.Name)) and isinstance(n._parent, ast.If)]
    for er in esc_ret:
        t = er._parent.test
        tt = norm(t)
        if "ESC_CODE" not in tt and "\\\\path" not in tt and "is_escaped" not in tt:
            continue
        inst = {"branch": "escaped '\\path' mapping", "guard": tt}
        r.instances.append(inst)
        over_all = any(isinstance(x, ast.Call) and norm(x.func) == "any" for x in ast.walk(t)) or "is_escaped" in tt
        if over_all:
            r.ok()
        elif isinstance(t, (ast.Compare, ast.BoolOp)):
            r.fail(Finding("R-TOKENS", f"R-TOKENS|{pp.qualname}|escape-guard", f"{pp.file}:{er._parent.lineno}",
                           f"the escape test `{tt}` looks at one key only; a literal mapping whose escaped key is not that one keeps its '\\\\path' spelling (and is no longer the literal the spec wrote)", []))
        else:
            r.undecided.append(inst)
    return r


# ------------------------------------------------------------------------------------------
def rule_castinv(ctx):
    """Finite evaluation: for every entry of CAST_LOOKUP, what Rule.to_json_like writes for
    cast={from: func} must parse back (Rule.from_spec's table look-ups) to the same mapping."""
    prog = ctx.prog
    r = RuleResult("R-CASTINV", floor=2)
    casting = prog.module("casting")
    dtype = module_table(prog, casting, "CAST_DTYPE_LOOKUP")
    lookup = module_table(prog, casting, "CAST_LOOKUP")
    writer = prog.flat("rules.Rule.to_json_like")
    where = f"{writer.file}:{writer.node.lineno}"
    # statements computing `cast` in the writer: everything before the `out = {...}` assignment
    pre = []
    out_dict = None
    for st in writer.node.body:
        if isinstance(st, ast.Assign) and isinstance(st.value, ast.Dict) and any(isinstance(k, ast.Constant) and k.value == "cast" for k in st.value.keys):
            out_dict = st.value
            break
        pre.append(st)
    if out_dict is None:
        has_map = any(isinstance(st, ast.Assign) and isinstance(st.value, ast.Dict) for st in writer.node.body)
        if not has_map:
            raise AnalysisError("Rule.to_json_like: the returned mapping not found")
        r.instances.append({"cast": "not written at all"})
        r.fail(Finding("R-CASTINV", "R-CASTINV|rules.Rule.to_json_like|missing", where,
                       "Rule.to_json_like does not write the rule's casts: a rule that declares casts round-trips to one without", []))
        return r
    cast_expr = next(v for k, v in zip(out_dict.keys, out_dict.values) if isinstance(k, ast.Constant) and k.value == "cast")
    # table injectivity
    inv_names = {}
    for k, v in dtype.items():
        inv_names.setdefault(v, []).append(k)
    r.instances.append({"table": "CAST_DTYPE_LOOKUP", "injective": all(len(v) == 1 for v in inv_names.values())})
    if all(len(v) == 1 for v in inv_names.values()):
        r.ok()
    else:
        r.fail(Finding("R-CASTINV", "R-CASTINV|CAST_DTYPE_LOOKUP|injective", "valida/casting.py:10", f"CAST_DTYPE_LOOKUP is not injective: {inv_names}", []))
    for (frm, to), fn in lookup.items():
        inst = {"cast": f"{frm!r} -> {to!r} via {fn!r}"}
        r.instances.append(inst)
        if frm not in inv_names or to not in inv_names:
            r.fail(Finding("R-CASTINV", f"R-CASTINV|CAST_LOOKUP|{frm}->{to}|unnamed", "valida/casting.py:15", f"cast {frm!r}->{to!r} uses a type with no name in CAST_DTYPE_LOOKUP", []))
            continue
        ev = ConstEval(prog, writer.module, {"self": AttrObj(cast={frm: fn}), "kwargs": {}, "args": ()})
        try:
            run_block(ev, pre)
            written = ev.ev(cast_expr)
        except Undecidable as e:
            inst["verdict"] = f"undecided ({e})"
            r.undecided.append(inst)
            continue
        inst["written"] = repr(written)
        ok = isinstance(written, dict) and all(isinstance(k, str) and isinstance(v, str) for k, v in written.items())
        back = None
        if ok:
            try:
                back = {dtype[k]: lookup[(dtype[k], dtype[v])] for k, v in written.items()}
            except KeyError:
                back = None
        inst["parsed_back"] = repr(back)
        if ok and back == {frm: fn}:
            r.ok()
        else:
            r.fail(Finding("R-CASTINV", f"R-CASTINV|rules.Rule.to_json_like|{frm}->{to}", where,
                           f"Rule.to_json_like writes cast={{{frm!r}: {fn!r}}} as {written!r}, which from_spec parses back to {back!r} (not the same cast; or not JSON-typed names)", []))
    # cast=None stays None
    ev = ConstEval(prog, writer.module, {"self": AttrObj(cast=None), "kwargs": {}, "args": ()})
    inst = {"cast": "None"}
    r.instances.append(inst)
    try:
        run_block(ev, pre)
        w = ev.ev(cast_expr)
        if w is None:
            r.ok()
        else:
            r.fail(Finding("R-CASTINV", "R-CASTINV|rules.Rule.to_json_like|None", where, f"a rule without casts is written with cast={w!r}", []))
    except Undecidable as e:
        r.undecided.append(inst)
    return r
