"""AST utilities shared by the recognised-form rules: helper inlining, dominating facts,
role inference helpers.  They exist so that the rules follow the usual behaviour-preserving
refactorings (rename, extract helper, early exit instead of nesting, loop <-> comprehension)
instead of matching text."""

from __future__ import annotations

import ast
import copy

from ..program import FuncInfo, Program, norm


def parents(node):
    p = node
    while hasattr(p, "_parent"):
        p = p._parent
        yield p


def enclosing(node, kind):
    for p in parents(node):
        if isinstance(p, kind):
            return p
    return None


def stmt_of(node):
    p = node
    while not isinstance(p, ast.stmt):
        p = p._parent
    return p


def simple_helper_return(fn: FuncInfo):
    """Return expression of a helper whose body is `return <expr>` (docstring allowed)."""
    body = [s for s in fn.node.body if not (isinstance(s, ast.Expr) and isinstance(s.value, ast.Constant))]
    if len(body) == 1 and isinstance(body[0], ast.Return) and body[0].value is not None:
        return body[0].value
    return None


def inline_helpers(prog: Program, func: FuncInfo, expr, depth=3):
    """Inline calls of single-return helpers: private module-level functions `_h(...)` of the
    same module and private methods `self._h(...)` of the same class."""
    if depth == 0:
        return expr

    class Inl(ast.NodeTransformer):
        def visit_Call(self, node):
            self.generic_visit(node)
            target = None
            args = list(node.args)
            if isinstance(node.func, ast.Name) and node.func.id in func.module.functions:
                target = func.module.functions[node.func.id]
            elif isinstance(node.func, ast.Attribute) and isinstance(node.func.value, ast.Name) and node.func.value.id == "self" and func.cls is not None:
                m = func.cls.lookup_method(node.func.attr)
                if m is not None and m.kind == "method" and m.name.startswith("_") and not m.name.startswith("__"):
                    target = m
                    args = [ast.Name(id="self", ctx=ast.Load())] + args
            if target is None or target.qualname == func.qualname:
                return node
            rv = simple_helper_return(target)
            if rv is None or node.keywords or len(args) != len(target.params) or any(isinstance(a, ast.Starred) for a in args):
                return node
            mapping = {p.name: a for p, a in zip(target.params, args)}

            class Sub(ast.NodeTransformer):
                def visit_Name(self, n):
                    if n.id in mapping and isinstance(n.ctx, ast.Load):
                        return copy.deepcopy(mapping[n.id])
                    return n
            new = Sub().visit(copy.deepcopy(rv))
            return inline_helpers(prog, target, new, depth - 1)
    return Inl().visit(copy.deepcopy(expr))


def _split_and(e):
    if isinstance(e, ast.BoolOp) and isinstance(e.op, ast.And):
        out = []
        for v in e.values:
            out += _split_and(v)
        return out
    return [e]


def _negate(e):
    if isinstance(e, ast.UnaryOp) and isinstance(e.op, ast.Not):
        return e.operand
    return ast.UnaryOp(op=ast.Not(), operand=e)


def _exits(body):
    return bool(body) and isinstance(body[-1], (ast.Raise, ast.Return, ast.Continue, ast.Break))


def facts_at(prog: Program, func: FuncInfo, node, canon_fn):
    """Conjuncts known to hold when control reaches `node`: tests of enclosing `if`s (negated in
    else-branches), negated tests of earlier sibling `if <t>: ...raise/return/continue`, with
    helpers inlined, `and` split and `not (a and b)` left as a single negated fact."""
    facts = []
    flags = {k: v for k, v in local_alias_map(func).items()
             if isinstance(v, (ast.BoolOp, ast.Compare)) or (isinstance(v, ast.UnaryOp) and isinstance(v.op, ast.Not))}

    class _Flags(ast.NodeTransformer):
        # `ok = a and b` ... `if ok:` establishes a and b: a flag bound once to a test stands for the test
        def __init__(self, depth=0):
            self.depth = depth

        def visit_Name(self, n):
            if n.id in flags and isinstance(n.ctx, ast.Load) and self.depth < 4:
                return _Flags(self.depth + 1).visit(copy.deepcopy(flags[n.id]))
            return n

    def add(test, positive, expanded=False):
        if flags and not expanded:
            t2 = _Flags().visit(copy.deepcopy(test))
            if ast.dump(t2) != ast.dump(test):
                add(t2, positive, True)
        t = inline_helpers(prog, func, test)
        if positive:
            for c in _split_and(t):
                facts.append(c)
        else:
            n = _negate(t)
            # not (not X) -> X, and then split
            for c in _split_and(n):
                facts.append(c)
    cur = node
    prev = node
    for p in parents(node):
        if isinstance(p, ast.BoolOp):
            # short-circuit: operands to the left hold (and) / do not hold (or) when this one is evaluated
            idx = next((i for i, v in enumerate(p.values) if v is prev), None)
            if idx:
                for v in p.values[:idx]:
                    add(v, isinstance(p.op, ast.And))
        prev = p
        if isinstance(p, ast.If):
            if any(cur is b or cur in list(ast.walk(b)) for b in p.body) and not (cur is p.test or cur in list(ast.walk(p.test))):
                add(p.test, True)
            elif any(cur is b or cur in list(ast.walk(b)) for b in p.orelse):
                add(p.test, False)
        if isinstance(p, ast.IfExp):
            if cur is p.body or cur in list(ast.walk(p.body)):
                add(p.test, True)
            elif cur is p.orelse or cur in list(ast.walk(p.orelse)):
                add(p.test, False)
        # earlier siblings with early exits
        for fld in ("body", "orelse", "finalbody"):
            blk = getattr(p, fld, None)
            if isinstance(blk, list):
                idx = next((i for i, s in enumerate(blk) if s is cur or cur in list(ast.walk(s))), None)
                if idx is not None:
                    for s in blk[:idx]:
                        if isinstance(s, ast.If) and _exits(s.body) and not s.orelse:
                            add(s.test, False)
                        elif isinstance(s, ast.If) and s.orelse and _exits(s.orelse) and not _exits(s.body):
                            add(s.test, True)
        cur = p if isinstance(p, ast.stmt) else cur
        if isinstance(p, (ast.FunctionDef, ast.AsyncFunctionDef)):
            break
    return {canon_fn(f) for f in facts}


def local_alias_map(func: FuncInfo):
    """{local: expr} for locals assigned exactly once from a pure expression (used to see
    through `is_map = part.CONTAINER_TYPE is Container.MAP` style hoisting)."""
    counts = {}
    exprs = {}
    for n in ast.walk(func.node):
        if isinstance(n, ast.Assign) and len(n.targets) == 1 and isinstance(n.targets[0], ast.Name):
            counts[n.targets[0].id] = counts.get(n.targets[0].id, 0) + 1
            exprs[n.targets[0].id] = n.value
        elif isinstance(n, (ast.AugAssign, ast.For)):
            t = n.target
            for x in ast.walk(t):
                if isinstance(x, ast.Name):
                    counts[x.id] = counts.get(x.id, 0) + 2
    return {k: v for k, v in exprs.items() if counts.get(k) == 1}


def _pure_chain(e):
    while isinstance(e, ast.Attribute):
        e = e.value
    return isinstance(e, ast.Name)


def expand_aliases(func: FuncInfo, expr):
    """Replace locals bound exactly once to an attribute chain (`p = self.rule.path`) by that
    chain, so that hoisting a receiver into a local does not change what a rule sees.  Only sound
    for chains whose links are not reassigned in between; the rules using it look at attributes
    set once in the constructor."""
    amap = {k: v for k, v in local_alias_map(func).items() if isinstance(v, ast.Attribute) and _pure_chain(v)}
    if not amap:
        return expr

    class Sub(ast.NodeTransformer):
        def visit_Name(self, n):
            if n.id in amap and isinstance(n.ctx, ast.Load):
                return Sub().visit(copy.deepcopy(amap[n.id]))
            return n
    return Sub().visit(copy.deepcopy(expr))


def modifier_effect(prog: Program, meth: FuncInfo):
    """What a zero-argument path-modifier method does, read off its flattened body:
    ('ok', FIELD, 'Enum.MEMBER') when it returns a fresh shallow copy of self on which exactly
    one field was stored from an enum member; otherwise ('bad', reason)."""
    from ..flatten import flat
    f = flat(prog, meth)
    if len(f.params) != 1:
        return ("bad", "takes arguments")
    selfname = f.params[0].name
    fresh = {}
    for n in ast.walk(f.node):
        if isinstance(n, ast.Assign) and len(n.targets) == 1 and isinstance(n.targets[0], ast.Name) and isinstance(n.value, ast.Call) \
                and ast.unparse(n.value.func) in ("copy.copy", "copy") and len(n.value.args) == 1 and ast.unparse(n.value.args[0]) == selfname:
            fresh[n.targets[0].id] = n
    stores = []
    for n in ast.walk(f.node):
        tg = n.targets if isinstance(n, ast.Assign) else ([n.target] if isinstance(n, (ast.AugAssign, ast.AnnAssign)) else [])
        for t in tg:
            for x in ast.walk(t):
                if isinstance(x, ast.Attribute) and isinstance(x.ctx, ast.Store):
                    stores.append((x, n))
                elif isinstance(x, ast.Subscript) and isinstance(x.ctx, ast.Store):
                    stores.append((x, n))
        if isinstance(n, ast.Call) and isinstance(n.func, ast.Name) and n.func.id in ("setattr", "delattr"):
            return ("bad", f"dynamic store `{ast.unparse(n)}`")
    rets = [n for n in ast.walk(f.node) if isinstance(n, ast.Return)]
    if not fresh:
        return ("bad", "no fresh `copy.copy(self)`")
    if len(stores) != 1:
        return ("bad", f"{len(stores)} stores (exactly one expected)")
    tgt, st = stores[0]
    if not (isinstance(tgt, ast.Attribute) and isinstance(tgt.value, ast.Name) and tgt.value.id in fresh):
        return ("bad", f"store `{ast.unparse(st)}` is not on the fresh copy")
    if not rets or not all(r.value is not None and isinstance(r.value, ast.Name) and r.value.id == tgt.value.id for r in rets):
        return ("bad", "does not return the fresh copy on every path")
    if not isinstance(st, ast.Assign):
        return ("bad", "augmented store")
    return ("ok", tgt.attr, ast.unparse(st.value))


def construction_helpers(prog: Program, cls):
    """Names of private methods of cls that run only as part of construction: every call site
    `<x>.<name>(...)` in the package lies in an `__init__` of the class hierarchy (on `self`)."""
    out = set()
    for k in cls.mro:
        for name, m in k.methods.items():
            if not name.startswith("_") or name.startswith("__") or m.kind != "method":
                continue
            sites = [(g, n) for g in prog.all_functions() for n in ast.walk(g.node)
                     if isinstance(n, ast.Call) and isinstance(n.func, ast.Attribute) and n.func.attr == name]
            if sites and all(g.name == "__init__" and g.cls is not None and (g.cls in cls.mro or cls in g.cls.mro)
                             and isinstance(n.func.value, ast.Name) and n.func.value.id == "self" for g, n in sites):
                out.add(name)
    return out
