"""R-REFLECT: reflection on spec strings must be whitelisted by a finite constant table."""

from __future__ import annotations

import ast

from .. import AnalysisError
from ..finite import ConstEval, MemberObj, Undecidable, allowed_sets, local_tables
from ..program import FuncInfo, norm
from ..report import Finding, RuleResult

from ..anchors import condition_parser, path_parser, filter_hook_name, filter_impl


def spec_driven(prog):
    return {
        condition_parser(prog).qualname: "condition class (datum kind / pre-processor class)",
        path_parser(prog).qualname: "DataPath object",
    }


def getattr_sites(prog):
    """[(FuncInfo, call node, name text, allowed set | None)] for every getattr with a
    non-constant attribute name in the package."""
    out = []
    for f in prog.all_functions():
        has = any(isinstance(n, ast.Call) and isinstance(n.func, ast.Name) and n.func.id == "getattr" and len(n.args) >= 2 and not isinstance(n.args[1], ast.Constant)
                  for n in ast.walk(f.node))
        if not has:
            continue
        for call, (txt, allowed) in allowed_sets(prog, f).items():
            out.append((f, call, txt, allowed))
    return out


def getattr_targets(prog):
    """{(function qualname, call text): sorted names} for the whitelisted sites, plus the
    enum-driven site in Condition._filter."""
    tg = {}
    for f, call, txt, allowed in getattr_sites(prog):
        if allowed is not None:
            tg[(f.qualname, norm(call))] = sorted(allowed)
    return tg


def rule_reflect(ctx):
    prog = ctx.prog
    r = RuleResult("R-REFLECT", floor=5)
    cond = prog.module("conditions")
    gen, mp = prog.cls("conditions.GeneralCallables"), prog.cls("conditions.MapCallables")
    ctor_names = {n for c in (gen, mp) for n, f in c.methods.items() if f.kind == "classmethod"}
    ctor_names |= {n for c in (gen, mp) for n, v in c.attrs.items() if isinstance(v, ast.Name) and v.id in c.methods}
    seen_spec_sites = 0
    SPEC_DRIVEN = spec_driven(prog)
    cond_parser_q = condition_parser(prog).qualname
    for f, call, txt, allowed in getattr_sites(prog):
        inst = {"site": f"{f.qualname}: {norm(call)}", "name_expr": txt,
                "allowed_names": sorted(allowed) if allowed is not None else None}
        r.instances.append(inst)
        where = f"{f.file}:{call.lineno}"
        if f.qualname in SPEC_DRIVEN:
            seen_spec_sites += 1
            if allowed is None:
                inst["verdict"] = "NOT WHITELISTED"
                r.fail(Finding("R-REFLECT", f"R-REFLECT|{f.qualname}|{norm(call)}", where,
                               f"`{norm(call)}` in {f.qualname}: the attribute name `{txt}` comes from the spec and is not bounded by any constant table "
                               f"(no dominating membership test, no table lookup without pass-through default) - any attribute of the {SPEC_DRIVEN[f.qualname]} can be named by a spec",
                               [f"{f.qualname} @ {where}: {norm(call)}"]))
                continue
            # every allowed name must be a DSL name of the receiver kind
            bad = []
            if f.qualname == cond_parser_q:
                value, key = prog.cls("conditions.Value"), prog.cls("conditions.Key")
                for nm in sorted(allowed):
                    is_ctor = nm in ctor_names
                    is_pre = all(isinstance(k.lookup(nm)[1], FuncInfo) and k.lookup(nm)[1].kind == "classproperty" for k in (value, key))
                    if not (is_ctor or is_pre):
                        bad.append(nm)
            else:
                from .astutil import modifier_effect
                dp = prog.cls("datapath.DataPath")
                for nm in sorted(allowed):
                    m = dp.lookup_method(nm)
                    ok = m is not None and m.kind == "method" and len(m.params) == 1 and modifier_effect(prog, m)[0] == "ok"
                    if not ok:
                        bad.append(nm)
            if bad:
                inst["verdict"] = f"whitelist admits non-DSL names {bad}"
                r.fail(Finding("R-REFLECT", f"R-REFLECT|{f.qualname}|{norm(call)}|names", where,
                               f"`{norm(call)}` in {f.qualname}: the table bounding `{txt}` admits {bad}, which are not DSL constructors / pre-processors / path modifiers",
                               [f"{f.qualname} @ {where}: {norm(call)}"]))
            else:
                inst["verdict"] = f"whitelisted by a constant table ({len(allowed)} names), all DSL names"
                r.ok()
        elif f.qualname == filter_impl(prog, "conditions.Condition").qualname:
            enum = prog.cls("conditions.FilterDatumType")
            vals = []
            for k, e in enum.attrs.items():
                if isinstance(e, ast.Constant):
                    vals.append(e.value)
            data = prog.cls("data.Data")
            missing = [v for v in vals if not (data.lookup_method(v) and len(data.lookup_method(v).params) == 1)]
            inst["allowed_names"] = vals
            if "DATUM_TYPE" not in txt or not vals or missing:
                inst["verdict"] = "enum-driven name does not resolve to zero-argument Data methods"
                r.fail(Finding("R-REFLECT", f"R-REFLECT|{f.qualname}|{norm(call)}", where,
                               f"`{norm(call)}`: FilterDatumType values {vals} must each name a zero-argument method of Data (missing: {missing})", []))
            else:
                inst["verdict"] = "driven by FilterDatumType values, each a zero-argument method of Data"
                r.ok()
        else:
            # internal helper: the attribute name is built from constants and parameters for which
            # every call site passes a string literal
            from .shape2 import _literal_args_of_param
            name_expr = call.args[1]
            params = sorted({n.id for n in ast.walk(name_expr) if isinstance(n, ast.Name) and n.id in f.param_names()})
            others = [n.id for n in ast.walk(name_expr) if isinstance(n, ast.Name) and n.id not in f.param_names()]
            lits = {p: _literal_args_of_param(prog, f, p) for p in params}
            names = None
            if params and not others and all(v for v in lits.values()):
                import itertools
                names = set()
                try:
                    for combo in itertools.product(*[lits[p] for p in params]):
                        names.add(ConstEval(prog, f.module, dict(zip(params, combo))).ev(name_expr))
                except Undecidable:
                    names = None
            inst["allowed_names"] = sorted(names) if names else None
            if names:
                inst["verdict"] = "internal: every caller passes string literals for the parameters the name is built from"
                r.ok()
            else:
                inst["verdict"] = "internal helper called with a non-literal attribute name"
                r.fail(Finding("R-REFLECT", f"R-REFLECT|{f.qualname}|{norm(call)}", where,
                               f"`{norm(call)}` in {f.qualname}: not every caller passes a literal attribute name", []))
    if seen_spec_sites < 3:
        raise AnalysisError(f"R-REFLECT: only {seen_spec_sites} spec-driven getattr sites found in the two parsers (3 confirmed on the pinned tree)")
    return r
