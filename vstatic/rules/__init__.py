"""Rule families (DESIGN.md section 5).  Each rule is a function ctx -> RuleResult."""
