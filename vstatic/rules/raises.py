"""R-RAISE: exception-effect rules (C01, C03, C07, C15) on the abstract interpreter."""

from __future__ import annotations

from ..aval import AVal, BOOL, NONE, const, join, mk
from ..contexts import CONCRETE_SPLIT, doc_root, obj, run_cases
from ..report import Finding, RuleResult

# One construct each; the reason names the rule / quantifier clause that discharges it.
EXEMPT = [
    dict(exc=("TypeError", "KeyError", "IndexError"), func="data.set_datum", reason_any=("subscript", "used as key", "used as index"),
         why="write-back subscripts along a concrete path that get_data reported for a document of which the target is a "
             "structure-preserving deep copy (discharged by R-LOCKSTEP/C04 and R-PURE/C15; casts replace scalars only)"),
    dict(exc=("ValueError",), func="datapath.DataPath.get_data", text_has="Specify the `data`",
         why="C01-C07 quantify over non-empty documents; Data.__init__ refuses empty containers"),
    dict(exc=("ValueError",), func="datapath.DataPath.get_data", text_has="SINGLE",
         why="documented error of the `single` modifier (C04: 'an error if there are several'); rule paths carry no modifier"),
    dict(exc=("TypeError",), func="data.Data.__init__", text_has="Data is not filterable", chain_has="self.rule.condition.filter(sub_data",
         why="sub_data is non-empty at this call: discharged by R-EXISTS/C05 (the path-exists guard dominates the call)"),
    dict(exc=("TypeError",), func="conditions.KeyLike.filter", text_has="`Key` condition can only filter a mapping",
         why="documented refusal of the wrong container kind (C03 mechanism); path resolution catches it per node"),
    dict(exc=("TypeError",), func="conditions.IndexLike.filter", text_has="`Index` condition can only filter a list",
         why="documented refusal of the wrong container kind (C03 mechanism); path resolution catches it per node"),
]


def exemptions(ctx):
    """EXEMPT with each entry's function widened to the private helpers it (transitively) calls,
    so that moving the exempted statement into an extracted helper keeps the exemption (and
    nothing else gains one: every entry is still pinned by its exception text / reason)."""
    def build():
        from ..flatten import helper_closure
        out = []
        for ex in EXEMPT:
            f = ctx.prog.functions.get(ex["func"])
            if f is None and ex["func"].count(".") == 1:
                # a module-level function moved to another module of the package keeps its exemption
                cands = [g for g in ctx.prog.all_functions() if g.cls is None and g.name == ex["func"].split(".")[1]]
                f = cands[0] if len(cands) == 1 else None
            if f is None:
                continue
            e = dict(ex)
            e["funcs"] = {g.qualname for g in helper_closure(ctx.prog, f)}
            out.append(e)
        return out
    return ctx.cached("exemptions", build)


def exempted(exc, witness, exemptions):
    ofunc, _, otext, oreason = witness[-1]
    for ex in exemptions:
        if exc not in ex["exc"] or ofunc not in ex.get("funcs", {ex["func"]}):
            continue
        if "text_has" in ex and ex["text_has"] not in otext:
            continue
        if "reason_has" in ex and ex["reason_has"] not in oreason:
            continue
        if "reason_any" in ex and not any(x in oreason for x in ex["reason_any"]):
            continue
        if "chain_has" in ex and not any(ex["chain_has"] in fr[2] for fr in witness):
            continue
        return ex
    return None


def _c07_jobs(ctx):
    def build():
        prog = ctx.prog
        jobs = [
            ("validate", "schema.Schema.validate", {"self": obj("schema.Schema", "schema"), "data": doc_root("data")},
             {"deepcopy_root": "PRIV"}, CONCRETE_SPLIT, None),
            ("rule_test", "rules.Rule.test", {"self": obj("rules.Rule", "rule"), "data": doc_root("data"), "_data_copy": NONE},
             {"deepcopy_root": "PRIV"}, CONCRETE_SPLIT, None),
        ]
        from ..contexts import run_jobs
        return run_jobs(prog, jobs)
    return ctx.cached("c07jobs", build)


def validate_merged(ctx):
    return _c07_jobs(ctx)["validate"]


def rule_test_merged(ctx):
    return _c07_jobs(ctx)["rule_test"]


def _c01_jobs(ctx):
    def build():
        from ..contexts import run_jobs
        from .purity import data_record, newinit_guarded_set
        prog = ctx.prog
        cfg = {"newinit_guarded": newinit_guarded_set(prog)}
        cond = obj("conditions.ConditionLike", "cond")
        nomod = mk("inst:datapath.DataPath", org=frozenset({("path", 0)}), fields=(
            ("_DATUM_TYPE", mk("inst:datapath.DataPathDatumType", const=("enum", "datapath.DataPathDatumType", "NONE"))),
            ("_MULTI_TYPE", mk("inst:datapath.DataPathMultiType", const=("enum", "datapath.DataPathMultiType", "NONE"))),
            ("source_data", NONE)))
        jobs = [
            ("filter", "conditions.ConditionLike.filter", {"self": cond, "data": doc_root("data"), "data_has_paths": const(False),
                                                            "source_data": join(NONE, data_record("source"))}, cfg, CONCRETE_SPLIT, None),
            ("test_all", "conditions.ConditionLike.test_all", {"self": cond, "data": doc_root("data")}, cfg, CONCRETE_SPLIT, None),
            ("data_filter", "data.Data.filter", {"self": data_record("data"), "condition_like": cond}, cfg, CONCRETE_SPLIT, None),
            ("get_data", "datapath.DataPath.get_data", {"self": nomod, "data": doc_root("data"), "return_paths": BOOL}, cfg, CONCRETE_SPLIT, None),
            ("data_get", "data.Data.get", {"self": data_record("data"), "path_parts": mk("tuple", tup=(nomod,)), "return_paths": BOOL}, cfg, CONCRETE_SPLIT, None),
        ]
        return run_jobs(prog, jobs)
    return ctx.cached("c01jobs", build)


def raise_rule(name, merged, exemptions, allowed=(), floor=1, only_funcs=None, what=""):
    """Every tainted may-raise site reachable from the entry is an obligation: it must be
    covered by a handler on every call path (i.e. must not escape the entry), be allowed
    by the property, or match a named exemption."""
    r = RuleResult(name, floor=floor)
    sites = {}
    for e in merged.by_kind("mayraise"):
        if not e.detail.get("tainted"):
            continue
        sites[(e.detail["exc"], e.func, e.text)] = e
    escaping = {}
    for (exc, ofunc, otext), (w, t) in merged.raises.items():
        if t:
            escaping[(exc, ofunc, otext)] = w
    for k, e in sorted(sites.items()):
        exc, func, text = k
        inst = {"site": f"{func}: {text}", "may_raise": exc, "reason": e.detail.get("reason", "")}
        if only_funcs is not None and func not in only_funcs:
            continue
        r.instances.append(inst)
        if k not in escaping:
            inst["verdict"] = "covered by a handler on every analysed call path"
            r.ok()
            continue
        w = escaping[k]
        if exc in allowed:
            inst["verdict"] = "allowed by the property"
            r.ok()
            continue
        ex = exempted(exc, w, exemptions)
        if ex is not None:
            inst["verdict"] = "exempt: " + ex["why"]
            r.exemptions_used.append({"site": inst["site"], "exc": exc, "why": ex["why"]})
            r.ok()
            continue
        inst["verdict"] = "ESCAPES"
        r.fail(Finding(
            rule=name,
            key=f"R-RAISE|{exc}|{func}|{text}",
            where=w[-1][1],
            message=f"{exc} ({w[-1][3]}) raised at `{text}` in {func} can escape {what or 'the entry point'}: no enclosing handler covers it on the call path shown",
            witness=[f"{fr[0]} @ {fr[1]}: {fr[2]}" for fr in w],
        ))
    r.notes.append(f"cases analysed: {merged.cases}; contexts {merged.contexts}; functions reached {len(merged.functions)}")
    return r


# ------------------------------------------------------------------------------------------
# C19: malformed specs are rejected with spec errors, never internal ones
# ------------------------------------------------------------------------------------------
C19_ALLOWED = {"TypeError", "ValueError", "MalformedConditionLikeSpec", "MalformedDataPathSpec", "MalformedRuleSpec",
               "MalformedContainerItemSpec"}
RULE_FIELDS = ("spec['path']", "spec['condition']", "schema_dat['rules']")


def _is_spec_error(prog, exc):
    """The library's own spec errors: the Malformed* classes of valida/errors.py and their subclasses;
    likewise subclasses of TypeError / ValueError defined in the package."""
    c = next((k for k in prog.classes.values() if k.name == exc and k.is_exception()), None)
    if c is None:
        return False
    for k in c.mro:
        if k.name in C19_ALLOWED or (k.module.name == "errors" and k.name.startswith("Malformed")):
            return True
        if any(b in ("TypeError", "ValueError") for b in k.ext_bases):
            return True
    return False


def rule_c19_raises(ctx):
    from .purity import parse_jobs
    merged, labels = parse_jobs(ctx)
    r = RuleResult("R-RAISE/C19", floor=25)
    sites = {}
    escaping = {}
    for l in labels:
        m = merged[l]
        for e in m.by_kind("mayraise"):
            if e.detail.get("tainted") or e.detail.get("reason") == "explicit raise":
                sites.setdefault((e.detail["exc"], e.func, e.text), e)
        for (exc, ofunc, otext), (w, t) in m.raises.items():
            if t or w[-1][3] == "explicit raise":
                escaping.setdefault((exc, ofunc, otext), (w, l))
    for k, e in sorted(sites.items()):
        exc, func, text = k
        inst = {"site": f"{func}: {text}", "may_raise": exc, "reason": e.detail.get("reason", "")}
        r.instances.append(inst)
        if k not in escaping:
            inst["verdict"] = "converted / covered by a handler on every analysed call path"
            r.ok()
            continue
        w, entry = escaping[k]
        if exc in C19_ALLOWED or _is_spec_error(ctx.prog, exc):
            inst["verdict"] = "escapes as an allowed spec error"
            r.ok()
            continue
        if exc == "KeyError" and any(text.endswith(f) or f in text for f in RULE_FIELDS):
            inst["verdict"] = "KeyError naming a mandatory rule field (allowed by the property)"
            r.ok()
            continue
        if exc == "NotImplementedError" and func == "utils.get_func_args_by_kind":
            inst["verdict"] = "exempt: parameter kinds of every DSL constructor are within the three accepted kinds (discharged by R-SIG)"
            r.exemptions_used.append(inst)
            r.ok()
            continue
        inst["verdict"] = "ESCAPES as an internal error"
        r.fail(Finding(
            rule="R-RAISE/C19",
            key=f"R-RAISE|{exc}|{func}|{text}",
            where=w[-1][1],
            message=f"{exc} ({w[-1][3]}) raised at `{text}` in {func} can escape the parser {entry}: a malformed spec would fail with an internal error "
                    f"instead of a Malformed* / TypeError / ValueError",
            witness=[f"{fr[0]} @ {fr[1]}: {fr[2]}" for fr in w],
        ))
    return r


# ------------------------------------------------------------------------------------------
# R-KIND: a part applied to the wrong kind of container never filters it
# ------------------------------------------------------------------------------------------
def rule_kind(ctx):
    from ..aval import AVal, json_node
    from ..contexts import run_jobs
    from .purity import newinit_guarded_set
    prog = ctx.prog
    r = RuleResult("R-KIND", floor=4)

    def rec(is_list):
        return mk("inst:data.Data", org=frozenset({("data", 0)}), taint=1, fields=(
            ("_is_list", const(is_list)),
            ("_keys", mk("tuple", elem=AVal(types=frozenset({"json"}), org=frozenset({("data", 1)}), taint=2, hk=True), nonempty=True)),
            ("_values", mk("tuple", elem=json_node("data", 1), nonempty=True))))
    raw_list = AVal(types=frozenset({"list"}), org=frozenset({("data", 0)}), taint=2, nonempty=True, elem=json_node("data", 1))
    raw_dict = AVal(types=frozenset({"dict"}), org=frozenset({("data", 0)}), taint=2, nonempty=True, elem=json_node("data", 1), key=AVal(types=frozenset({"json"}), org=frozenset({("data", 1)}), taint=2, hk=True))
    cfg = {"newinit_guarded": newinit_guarded_set(prog)}
    cases = [
        ("map part on a raw list", "datapath.MapValue.filter", "datapath.MapValue", raw_list),
        ("map part on a wrapped list", "datapath.MapValue.filter", "datapath.MapValue", rec(True)),
        ("list part on a raw mapping", "datapath.ListValue.filter", "datapath.ListValue", raw_dict),
        ("list part on a wrapped mapping", "datapath.ListValue.filter", "datapath.ListValue", rec(False)),
    ]
    jobs = [(lab, q, {"self": obj(cq, "part"), "data": d}, cfg, None, None) for lab, q, cq, d in cases]
    res = run_jobs(prog, jobs)
    for lab, q, cq, d in cases:
        m = res[lab]
        ret = m.rets[0] if m.rets else None
        raised = sorted({k[0] for k, v in m.raises.items()})
        inst = {"case": lab, "returns": ret.short()[:60] if ret is not None and not ret.is_bottom else "never returns", "raises": raised}
        r.instances.append(inst)
        if ret is not None and ret.is_bottom and "TypeError" in raised:
            r.ok()
        else:
            f = prog.func(q)
            r.fail(Finding("R-KIND", f"R-KIND|{q}|{lab}", f"{f.file}:{f.node.lineno}",
                           f"{q}: a {lab} must raise TypeError (which path resolution turns into 'matches nothing'); the analysis finds a path on which it is filtered instead "
                           f"(returns {inst['returns']}, may raise {raised})", []))
    return r


def rule_report_raises(ctx):
    """The failure reports and summaries of a validation result raise nothing because of what
    the document contains (C06: 'the textual failure report is always a string')."""
    from ..contexts import run_jobs
    from ..hints import build_hints
    from ..interp import Interp
    prog = ctx.prog
    r = RuleResult("R-RAISE/C06", floor=3)
    base = build_hints(prog)
    seen = set()
    for label, override in CONCRETE_SPLIT:
        h = dict(base)
        h.update(override)
        it = Interp(prog, h, {"deepcopy_root": "PRIV"})
        s = it.run(prog.func("schema.Schema.validate"), {"self": obj("schema.Schema", "schema"), "data": doc_root("data")})
        result = s.ret
        for meth in ("get_failures_string", "is_valid", "num_failures", "num_rules_tested"):
            fn = prog.cls("schema.ValidatedData").lookup_method(meth)
            it2 = Interp(prog, h, {})
            s2 = it2.run(fn, {"self": result})
            for (exc, ofunc, otext), (w, t) in s2.raises.items():
                inst_key = (meth, exc, ofunc, otext)
                if not t or inst_key in seen:
                    continue
                seen.add(inst_key)
                r.instances.append({"report": meth, "may raise": exc, "site": f"{ofunc}: {otext}"})
                r.fail(Finding("R-RAISE/C06", f"R-RAISE|{exc}|{ofunc}|{otext}", w[-1][1],
                               f"ValidatedData.{meth} can raise {exc} ({w[-1][3]}) at `{otext}` in {ofunc} because of what the document contains", [f"{fr[0]} @ {fr[1]}: {fr[2]}" for fr in w]))
            r.instances.append({"report": f"{meth} ({label})", "tainted operations escaping": len([1 for k, v in s2.raises.items() if v[1]])})
            if not any(v[1] for v in s2.raises.values()):
                r.ok()
    return r
