"""R-EQSTATE: __eq__ reads every behaviour-relevant field on both sides, tests the exact
type symmetrically before touching `other`, and is pure (C14)."""

from __future__ import annotations

import ast

from .. import AnalysisError
from ..aval import mk
from ..contexts import obj, run_jobs
from ..program import FuncInfo, norm
from ..report import Finding, RuleResult

EQ_CLASSES = [
    "conditions.Condition", "conditions.NullCondition", "conditions.Value", "conditions.ValueLength", "conditions.ValueDataType",
    "conditions.Key", "conditions.KeyLength", "conditions.KeyDataType", "conditions.Index",
    "conditions.ConditionAnd", "conditions.ConditionOr", "conditions.ConditionXor",
    "datapath.MapValue", "datapath.ListValue", "datapath.MapOrListValue", "datapath.DataPath",
    "rules.Rule", "schema.Schema",
]

EXEMPT_FIELDS = {
    ("rules.Rule", "doc"): "documentation only: no read entry point (filter / get_data / test / validate) reads it",
}


def _param_derived(init: FuncInfo, assign_stmt):
    """The value stored by `self.f = <expr>` in __init__ depends on a constructor parameter
    (directly or through locals).  Constant initialisations (`= None`, `= {}`) are lazily
    filled caches / result slots, not part of the definition the object was built from."""
    derived = {p.name for p in init.params[1:]}
    changed = True
    while changed:
        changed = False
        for n in ast.walk(init.node):
            tgts, val = [], None
            if isinstance(n, ast.Assign):
                tgts, val = n.targets, n.value
            elif isinstance(n, ast.For):
                tgts, val = [n.target], n.iter
            elif isinstance(n, ast.AugAssign):
                tgts, val = [n.target], n.value
            elif isinstance(n, ast.Expr) and isinstance(n.value, ast.Call) and isinstance(n.value.func, ast.Attribute) and isinstance(n.value.func.value, ast.Name) and n.value.func.attr in ("append", "extend", "add", "update"):
                tgts, val = [n.value.func.value], n.value
            if val is None:
                continue
            if any(isinstance(x, ast.Name) and x.id in derived for x in ast.walk(val)):
                for t in tgts:
                    for x in ast.walk(t):
                        if isinstance(x, ast.Name) and x.id not in derived:
                            derived.add(x.id)
                            changed = True
    val = getattr(assign_stmt, "value", None)
    if val is None:
        return True
    return any(isinstance(x, ast.Name) and x.id in derived for x in ast.walk(val))


def _attr_reads(node, name):
    """Attribute names read directly on variable `name` inside node."""
    out = set()
    for n in ast.walk(node):
        if isinstance(n, ast.Attribute) and isinstance(n.value, ast.Name) and n.value.id == name:
            out.add(n.attr)
    return out


def _method_reads(prog, cls, meth_name, seen=None):
    """Fields read on self by a method (following self.m() calls and property getters)."""
    seen = seen or set()
    f = cls.lookup_method(meth_name)
    if f is None or f.qualname in seen or not f.params:
        return set()
    seen.add(f.qualname)
    s = f.params[0].name
    reads = set()
    for a in _attr_reads(f.node, s):
        v = cls.lookup_method(a)
        if v is not None and v.kind in ("property",):
            reads.add(a)
            reads |= _method_reads(prog, cls, a, seen)
        elif v is not None:
            reads |= _method_reads(prog, cls, a, seen)
        else:
            reads.add(a)
    return reads


def compared_fields(prog, cls, eq: FuncInfo, seen=None):
    seen = seen or set()
    if eq.qualname in seen:
        return set()
    seen.add(eq.qualname)
    s, o = eq.params[0].name, eq.params[1].name
    rs, ro = set(), set()
    for a in _attr_reads(eq.node, s):
        v = cls.lookup_method(a)
        if v is not None and v.kind != "property":
            rs |= _method_reads(prog, cls, a)
        else:
            rs.add(a)
            if v is not None:
                rs |= _method_reads(prog, cls, a)
    for a in _attr_reads(eq.node, o):
        v = cls.lookup_method(a)
        if v is not None and v.kind != "property":
            ro |= _method_reads(prog, cls, a)
        else:
            ro.add(a)
            if v is not None:
                ro |= _method_reads(prog, cls, a)
    both = rs & ro
    # super().__eq__(other)
    for n in ast.walk(eq.node):
        if isinstance(n, ast.Call) and isinstance(n.func, ast.Attribute) and n.func.attr == "__eq__" and isinstance(n.func.value, ast.Call) and isinstance(n.func.value.func, ast.Name) and n.func.value.func.id == "super":
            K = eq.cls
            idx = cls.mro.index(K) if K in cls.mro else 0
            for k in cls.mro[idx + 1:]:
                if "__eq__" in k.methods:
                    both |= compared_fields(prog, cls, k.methods["__eq__"], seen)
                    break
    return both


def _type_test_kind(eq: FuncInfo):
    """'exact' when type(self) and type(other) are compared with == / is, 'super' when
    delegated to super().__eq__, 'isinstance', or None."""
    s, o = eq.params[0].name, eq.params[1].name
    kinds = []
    for n in ast.walk(eq.node):
        if isinstance(n, ast.Compare) and len(n.ops) == 1 and isinstance(n.ops[0], (ast.Eq, ast.Is)):
            l, r = ast.unparse(n.left), ast.unparse(n.comparators[0])
            if {l, r} == {f"type({s})", f"type({o})"}:
                kinds.append(("exact", n))
        if isinstance(n, ast.If) and isinstance(n.test, ast.Compare) and len(n.test.ops) == 1 and isinstance(n.test.ops[0], (ast.NotEq, ast.IsNot)):
            l, r = ast.unparse(n.test.left), ast.unparse(n.test.comparators[0])
            if {l, r} == {f"type({s})", f"type({o})"} and n.body and isinstance(n.body[-1], ast.Return) and isinstance(n.body[-1].value, ast.Constant) and n.body[-1].value.value is False:
                kinds.append(("exact-guard", n))
        if isinstance(n, ast.If) and isinstance(n.test, ast.UnaryOp) and isinstance(n.test.op, ast.Not) and isinstance(n.test.operand, ast.Compare) and len(n.test.operand.ops) == 1 \
                and isinstance(n.test.operand.ops[0], (ast.Eq, ast.Is)):
            l, r = ast.unparse(n.test.operand.left), ast.unparse(n.test.operand.comparators[0])
            if {l, r} == {f"type({s})", f"type({o})"} and n.body and isinstance(n.body[-1], ast.Return) and isinstance(n.body[-1].value, ast.Constant) and n.body[-1].value.value is False:
                kinds.append(("exact-guard", n))
        if isinstance(n, ast.Call) and isinstance(n.func, ast.Name) and n.func.id == "isinstance" and n.args and isinstance(n.args[0], ast.Name) and n.args[0].id == o:
            kinds.append(("isinstance", n))
        if isinstance(n, ast.Call) and isinstance(n.func, ast.Attribute) and n.func.attr == "__eq__" and isinstance(n.func.value, ast.Call) and getattr(n.func.value.func, "id", "") == "super":
            kinds.append(("super", n))
    return kinds


def _other_reads_guarded(eq: FuncInfo, test_node):
    """Every attribute read on `other` comes after the type test in evaluation order and is
    short-circuited by it (same `and` chain with the test first, or nested in an `if` on it)."""
    o = eq.params[1].name
    tl, tc = test_node.lineno, test_node.col_offset
    for n in ast.walk(eq.node):
        if isinstance(n, ast.Attribute) and isinstance(n.value, ast.Name) and n.value.id == o:
            if (n.lineno, n.col_offset) < (tl, tc):
                return False, n
            # must be under an And chain / If whose earlier operand / test contains the type test
            p = n
            ok = False
            while hasattr(p, "_parent"):
                par = p._parent
                if isinstance(par, ast.BoolOp) and isinstance(par.op, ast.And):
                    i = next(i for i, v in enumerate(par.values) if v is p)
                    if any(test_node in list(ast.walk(v)) for v in par.values[:i]):
                        ok = True
                        break
                if isinstance(par, ast.If) and p in par.body and test_node in list(ast.walk(par.test)):
                    ok = True
                    break
                if isinstance(par, ast.If) and p is par.test and test_node in list(ast.walk(par.test)) and not any(isinstance(x, ast.BoolOp) and isinstance(x.op, ast.Or) and test_node in list(ast.walk(x)) and n in list(ast.walk(x)) and _in_different_operands(x, test_node, n) for x in ast.walk(par.test)):
                    # same test expression: rely on the And-chain check above
                    pass
                p = par
                if isinstance(par, (ast.FunctionDef,)):
                    break
            if not ok:
                return False, n
    return True, None


def _in_different_operands(boolop, a, b):
    ia = ib = None
    for i, v in enumerate(boolop.values):
        w = list(ast.walk(v))
        if a in w:
            ia = i
        if b in w:
            ib = i
    return ia is not None and ib is not None and ia != ib


def _swap_symmetric(eq: FuncInfo):
    """Combination equality: compares children pairwise (0,0)&(1,1) or swapped (0,1)&(1,0)."""
    pairs = set()
    for n in ast.walk(eq.node):
        if isinstance(n, ast.BoolOp) and isinstance(n.op, ast.And):
            grp = []
            for v in n.values:
                if isinstance(v, ast.Compare) and len(v.ops) == 1 and isinstance(v.ops[0], ast.Eq):
                    l, r = v.left, v.comparators[0]
                    if all(isinstance(x, ast.Subscript) and isinstance(x.value, ast.Attribute) and x.value.attr == "children" and isinstance(x.slice, ast.Constant) for x in (l, r)):
                        grp.append((l.slice.value, r.slice.value))
            if len(grp) == 2:
                pairs.add(frozenset(grp))
    return pairs


def rule_eqstate(ctx):
    prog = ctx.prog
    r = RuleResult("R-EQSTATE", floor=18)
    for cq in EQ_CLASSES:
        c = prog.cls(cq)
        eq = c.lookup_method("__eq__")
        inst = {"class": cq}
        r.instances.append(inst)
        if eq is None:
            r.fail(Finding("R-EQSTATE", f"R-EQSTATE|{cq}|no __eq__", f"{c.module.relpath}:{c.node.lineno}", f"{cq} defines no __eq__: separately built copies of the same definition compare unequal (identity)", []))
            continue
        where = f"{eq.file}:{eq.node.lineno}"
        inst["__eq__"] = eq.qualname
        state = set()
        for fld, sites in c.all_fields().items():
            # constructor state only: a field assigned solely outside __init__ is a lazily
            # filled cache, which is R-PURE's concern (C08), not part of the object's identity
            if any(fn.name == "__init__" and _param_derived(fn, st) for fn, st in sites):
                state.add(fld)
        # property-backed fields: `_X` stored by the setter of property `X`
        norm_state = set()
        for fld in state:
            if fld.startswith("_") and c.lookup_method(fld[1:]) is not None and c.lookup_method(fld[1:]).kind == "property":
                norm_state.add(fld[1:])
            elif c.lookup_setter(fld) is not None:
                norm_state.add(fld)
            else:
                norm_state.add(fld)
        comp = compared_fields(prog, c, eq)
        comp_norm = {x[1:] if x.startswith("_") and x[1:] in norm_state else x for x in comp}
        missing = sorted(f for f in norm_state - comp_norm if (cq, f) not in EXEMPT_FIELDS and not any((k.qualname, f) in EXEMPT_FIELDS for k in c.mro))
        inst["state"] = sorted(norm_state)
        inst["compared"] = sorted(comp_norm & norm_state)
        problems = []
        if missing:
            problems.append(("fields", f"field(s) {missing} are part of the object's state but are not read on both sides by {eq.qualname}: two objects differing only there compare equal"))
        kinds = _type_test_kind(eq)
        tk = [k for k, _ in kinds]
        s_, o_ = eq.params[0].name, eq.params[1].name
        exact_forms = {f"type({o_}) == type({s_})", f"type({s_}) == type({o_})", f"type({o_}) is type({s_})", f"type({s_}) is type({o_})",
                       f"super().__eq__({o_})"}
        if {"exact", "exact-guard", "super"} & set(tk):
            # every read of the other operand's attributes must be dominated by the exact-type test
            from .astutil import facts_at
            unparse = lambda e: " ".join(ast.unparse(e).split())
            for n in ast.walk(eq.node):
                if isinstance(n, ast.Attribute) and isinstance(n.value, ast.Name) and n.value.id == o_ and n.attr != "__class__":
                    facts = facts_at(prog, eq, n, unparse)
                    negated = {x.replace(" == ", " != ").replace(" is ", " is not ") for x in exact_forms} - exact_forms
                    neg = {f"not {x}" for x in exact_forms} | negated
                    # `if type(a) is not type(b): return False` establishes `not type(a) is not type(b)`
                    pos = exact_forms | {f"not {x}" for x in negated} | {f"not ({x})" for x in negated}
                    if not (facts & pos) or (facts & neg):
                        problems.append(("guard", f"`{norm(n)}` reads an attribute of the other operand where the exact-type test does not protect it: a foreign operand raises AttributeError instead of comparing unequal"))
                        break
        elif "isinstance" in tk:
            problems.append(("type", "the type test uses isinstance(other, ...): asymmetric between a class and its subclasses"))
        else:
            problems.append(("type", "no exact-type test (type(self) == type(other)) found"))
        if not c.is_subclass_of(prog.cls("conditions.ConditionBinaryOp")):
            # sequences compared by membership (`all(i in B for i in A)` plus a length test, set(..) == set(..)):
            # not symmetric and not transitive once an element can occur twice ([r, r, q] vs [r, r', q])
            for n in ast.walk(eq.node):
                memb = (isinstance(n, ast.Call) and norm(n.func) == "all" and n.args and isinstance(n.args[0], (ast.GeneratorExp, ast.ListComp))
                        and isinstance(n.args[0].elt, ast.Compare) and isinstance(n.args[0].elt.ops[0], ast.In)
                        and any(isinstance(x, ast.Attribute) and isinstance(x.value, ast.Name) and x.value.id in (eq.params[0].name, eq.params[1].name) for x in ast.walk(n.args[0])))
                if memb:
                    problems.append(("multiset", f"`{norm(n)[:90]}` compares two sequences by membership: with a repeated element x == y can hold while y == x does not "
                                                 f"(and the 'equal' objects behave differently)"))
                    break
        if c.is_subclass_of(prog.cls("conditions.ConditionBinaryOp")):
            # operand lists compared by membership (`all(i in B for i in A)`, set(..) == set(..)) forget how often
            # an operand occurs: a ^ a ^ b and a ^ b ^ b would compare equal although they differ in meaning
            for n in ast.walk(eq.node):
                memb = (isinstance(n, ast.Call) and norm(n.func) == "all" and n.args and isinstance(n.args[0], (ast.GeneratorExp, ast.ListComp))
                        and isinstance(n.args[0].elt, ast.Compare) and isinstance(n.args[0].elt.ops[0], ast.In))
                sets = (isinstance(n, ast.Compare) and isinstance(n.ops[0], ast.Eq) and isinstance(n.left, ast.Call) and norm(n.left.func) in ("set", "frozenset")
                        and any("cond" in norm(a).lower() or "child" in norm(a).lower() for a in n.left.args))
                sym = c.lookup("FLATTEN_SYMBOL")[1]
                idempotent = isinstance(sym, ast.Constant) and sym.value in ("and", "or")
                if (memb or sets) and not idempotent:
                    problems.append(("multiset", f"`{norm(n)[:90]}` compares operand lists by membership: repeated operands are not counted (a ^ a ^ b == a ^ b ^ b), "
                                                 f"so equal combinations can filter differently"))
                    break
            # one-directional containment (`all(any(i == j for j in B) for i in A)`, `all(i in B for i in A)`
            # without the mirror-image test): (a & a) == (a & b) holds while (a & b) == (a & a) does not -
            # not symmetric for any operator, idempotent or not (seed C14-m9)
            pnames = (eq.params[0].name, eq.params[1].name)

            def _side(e):
                for x in ast.walk(e):
                    if isinstance(x, ast.Attribute) and isinstance(x.value, ast.Name) and x.value.id in pnames:
                        return x.value.id
                return None
            directions = {}
            for n in ast.walk(eq.node):
                if not (isinstance(n, ast.Call) and norm(n.func) == "all" and n.args and isinstance(n.args[0], (ast.GeneratorExp, ast.ListComp))):
                    continue
                g = n.args[0]
                outer = _side(g.generators[0].iter)
                inner = None
                if isinstance(g.elt, ast.Compare) and isinstance(g.elt.ops[0], ast.In):
                    inner = _side(g.elt.comparators[0])
                elif isinstance(g.elt, ast.Call) and norm(g.elt.func) == "any" and g.elt.args and isinstance(g.elt.args[0], (ast.GeneratorExp, ast.ListComp)):
                    inner = _side(g.elt.args[0].generators[0].iter)
                if outer and inner and outer != inner:
                    directions[(outer, inner)] = n
            if directions:
                inst["containment_directions"] = sorted(f"{a} in {b}" for a, b in directions)
                if len(directions) == 1:
                    (a, b), n = next(iter(directions.items()))
                    problems.append(("asymmetric", f"`{norm(n)[:100]}` tests that every operand of `{a}` occurs among those of `{b}` but not the converse: "
                                                   f"with a repeated operand (x & x) == (x & y) holds while (x & y) == (x & x) does not, and the 'equal' combinations filter differently"))
            pairs = _swap_symmetric(eq)
            want = {frozenset({(0, 0), (1, 1)}), frozenset({(0, 1), (1, 0)})}
            inst["children_pairings"] = sorted(sorted(p) for p in pairs)
            if pairs != want:
                if pairs and pairs < want:
                    problems.append(("swap", "combination equality compares the children in one order only: a & b != b & a"))
                else:
                    inst["note"] = "children comparison not in the recognised pairwise form: commutativity undecided"
                    r.undecided.append({"class": cq, "what": "commutative children comparison"})
        if problems:
            inst["verdict"] = [p for _, p in problems]
            for kind, pr in problems:
                r.fail(Finding("R-EQSTATE", f"R-EQSTATE|{cq}|{kind}", where, f"{cq}: {pr}", [f"{eq.qualname} @ {where}"]))
        else:
            inst["verdict"] = "all state compared; exact symmetric type test first"
            r.ok()
    # the prepared callable is compared by name, args and kwargs - in Condition.__eq__ itself or in
    # the private helpers it calls (whatever they are named)
    from ..flatten import helper_closure
    cond = prog.cls("conditions.Condition")
    ceq = cond.lookup_method("__eq__")
    inst = {"class": "conditions.PreparedConditionCallable (through Condition.__eq__ and its helpers)"}
    r.instances.append(inst)
    if ceq is None:
        r.fail(Finding("R-EQSTATE", "R-EQSTATE|conditions.Condition._members|missing", "valida/conditions.py:1", "Condition.__eq__ not found", []))
    else:
        fns = helper_closure(prog, ceq)
        txt = " ".join(ast.unparse(g.node) for g in fns)
        need = {"name": ".callable.name" in txt or ".callable.func" in txt, "args": ".callable.args" in txt, "kwargs": ".callable.kwargs" in txt}
        if ".callable ==" in txt or "== other.callable" in txt or ".callable !=" in txt:
            peq = prog.cls("conditions.PreparedConditionCallable").lookup_method("__eq__")
            if peq is not None:
                ptxt = ast.unparse(peq.node)
                need = {"name": ".name" in ptxt or ".func" in ptxt, "args": ".args" in ptxt, "kwargs": ".kwargs" in ptxt}
        inst["reads"] = need
        inst["functions"] = [g.qualname for g in fns]
        if all(need.values()):
            r.ok()
        else:
            r.fail(Finding("R-EQSTATE", "R-EQSTATE|conditions.Condition._members|fields", f"{ceq.file}:{ceq.node.lineno}",
                           f"condition equality must cover the callable's name, args and kwargs; missing: {[k for k, v in need.items() if not v]}", []))
    # equality identifies the comparison function by its __name__: every function a DSL constructor
    # binds must be a plain `def` of the callables module, so that distinct functions have distinct names
    from ..hints import dsl_bindings
    callables = prog.module("callables")
    seen = set()
    for (c, f, ent, call) in dsl_bindings(prog):
        if ent.qualname in seen:
            continue
        seen.add(ent.qualname)
        ok = ent.name in callables.functions and callables.functions[ent.name] is ent and not ent.node.decorator_list
        inst = {"callable": ent.qualname, "plain def": ok}
        r.instances.append(inst)
        if ok:
            r.ok()
        else:
            r.fail(Finding("R-EQSTATE", f"R-EQSTATE|callable-name|{ent.name}", f"{ent.file}:{ent.node.lineno}",
                           f"callables.{ent.name} is not a plain function definition (decorated / generated): its __name__, which condition equality compares, need not be `{ent.name}`", []))
    for name, v in callables.constants.items():
        if name.startswith("_"):
            continue
        if isinstance(v, (ast.Call, ast.Name, ast.Lambda, ast.Attribute)):
            inst = {"callable": f"callables.{name}", "plain def": False}
            r.instances.append(inst)
            r.fail(Finding("R-EQSTATE", f"R-EQSTATE|callable-name|{name}", f"{callables.relpath}:{v.lineno}",
                           f"callables.{name} is bound by assignment (`{name} = {norm(v)[:60]}`), not defined with `def {name}`: its __name__, which condition equality compares, can coincide with another function's", []))
    return r


def eq_pure_jobs(ctx):
    def build():
        from .purity import newinit_guarded_set
        prog = ctx.prog
        cfg = {"newinit_guarded": newinit_guarded_set(prog)}
        jobs = []
        done = set()
        for cq in EQ_CLASSES:
            c = prog.cls(cq)
            eq = c.lookup_method("__eq__")
            if eq is None or (eq.qualname, cq) in done:
                continue
            done.add((eq.qualname, cq))
            jobs.append((f"{cq}.__eq__", eq.qualname, {eq.params[0].name: obj(cq, "self"), eq.params[1].name: obj(cq, "other")}, cfg, None, None))
        return run_jobs(prog, jobs), [j[0] for j in jobs]
    return ctx.cached("eqjobs", build)


def rule_eq_pure(ctx):
    from .purity import mutation_rule
    merged, labels = eq_pure_jobs(ctx)
    r = mutation_rule("R-PURE/C14", [(l, merged[l]) for l in labels], {"self", "other"}, "the comparison (an operand of ==)", floor=0)
    r.notes.append(f"entry points analysed: {len(labels)} __eq__ implementations x classes")
    if not r.instances:
        r.instances.append({"entries": labels, "verdict": "no store or mutating call reachable from any __eq__"})
        r.ok()
    return r
