"""R-PURE / R-ESCAPE / R-NEWINIT: ownership and mutation rules on the abstract interpreter."""

from __future__ import annotations

import ast

from .. import AnalysisError
from ..aval import AVal, BOOL, NONE, const, join, join_all, json_node, mk
from ..contexts import CONCRETE_SPLIT, doc_root, obj, run_jobs
from ..program import head, norm
from ..report import Finding, RuleResult


# ------------------------------------------------------------------------------------------
# R-NEWINIT (syntactic): __init__ must not re-initialise an object __new__ short-circuited to
# ------------------------------------------------------------------------------------------
def newinit_analysis(prog):
    """[(class, new FuncInfo, shortcut exprs, init FuncInfo, guarded?, first unguarded store)]"""
    out = []
    for c in prog.classes.values():
        new = c.methods.get("__new__")
        if new is None:
            continue
        shortcuts = []
        for n in ast.walk(new.node):
            if isinstance(n, ast.Return) and n.value is not None:
                v = n.value
                alts = v.values if isinstance(v, ast.BoolOp) and isinstance(v.op, ast.Or) else ([v.body, v.orelse] if isinstance(v, ast.IfExp) else [v])
                for a in alts:
                    if _is_fresh_new(a):
                        continue
                    shortcuts.append(a)
        if not shortcuts:
            continue
        for k in c.all_subclasses():
            init = k.lookup_method("__init__")
            if init is None:
                continue
            guarded, bad = _init_guarded(init, shortcuts)
            out.append((k, new, shortcuts, init, guarded, bad))
    return out


def _is_fresh_new(e):
    if isinstance(e, ast.Call) and isinstance(e.func, ast.Attribute) and e.func.attr == "__new__":
        b = e.func.value
        if isinstance(b, ast.Call) and isinstance(b.func, ast.Name) and b.func.id == "super":
            return True
        if isinstance(b, ast.Name) and b.id == "object":
            return True
    return False


def _init_guarded(init, shortcuts):
    """True when every store to self / call on self in __init__ is preceded by an early
    return whose test is one of the short-circuit expressions of __new__."""
    selfname = init.params[0].name
    texts = {norm(s) for s in shortcuts}
    for st in init.node.body:
        if isinstance(st, ast.Expr) and isinstance(st.value, ast.Constant):
            continue
        if isinstance(st, ast.If) and st.body and isinstance(st.body[-1], ast.Return) and not st.orelse:
            t = st.test
            cand = None
            if isinstance(t, ast.Compare) and len(t.ops) == 1 and isinstance(t.ops[0], ast.IsNot) and isinstance(t.comparators[0], ast.Constant) and t.comparators[0].value is None:
                cand = t.left
            elif isinstance(t, ast.UnaryOp) and isinstance(t.op, ast.Not) and isinstance(t.operand, ast.Compare) and isinstance(t.operand.ops[0], ast.Is):
                cand = t.operand.left
            else:
                cand = t
            if cand is not None and norm(cand) in texts and not any(_touches_self(s, selfname) for s in st.body[:-1]):
                return True, None
            if _is_has_field_test(t, selfname):
                return True, None
        if _touches_self(st, selfname):
            return False, st
    return False, None


def _is_has_field_test(t, selfname):
    if isinstance(t, ast.Call) and isinstance(t.func, ast.Name) and t.func.id == "hasattr" and t.args and isinstance(t.args[0], ast.Name) and t.args[0].id == selfname:
        return True
    return False


def _touches_self(st, selfname):
    for n in ast.walk(st):
        if isinstance(n, ast.Attribute) and isinstance(n.value, ast.Name) and n.value.id == selfname and isinstance(n.ctx, (ast.Store, ast.Del)):
            return True
        if isinstance(n, ast.Call) and isinstance(n.func, ast.Attribute) and isinstance(n.func.value, ast.Name) and n.func.value.id == selfname:
            return True
    return False


def newinit_guarded_set(prog):
    return {k.qualname for (k, new, sc, init, guarded, bad) in newinit_analysis(prog) if guarded}


def rule_newinit(ctx, pid_rule="R-NEWINIT"):
    r = RuleResult(pid_rule, floor=4)
    for (k, new, shortcuts, init, guarded, bad) in newinit_analysis(ctx.prog):
        inst = {"class": k.qualname, "__new__": new.qualname, "may_return_existing": [norm(s) for s in shortcuts], "__init__": init.qualname}
        r.instances.append(inst)
        if guarded:
            inst["verdict"] = "__init__ returns early under the same test before touching self"
            r.ok()
        else:
            st = bad if bad is not None else init.node
            inst["verdict"] = "UNGUARDED"
            r.fail(Finding(
                rule=pid_rule,
                key=f"R-NEWINIT|{init.qualname}|{k.qualname}",
                where=f"{init.file}:{getattr(st, 'lineno', 0)}",
                message=f"{new.qualname} may return an existing object ({', '.join(norm(s) for s in shortcuts)}); Python then runs {init.qualname} on it, "
                        f"and `{head(st) if isinstance(st, ast.stmt) else ''}` re-initialises that object (an operand of the combination) - no early return under the same test precedes it",
                witness=[f"{new.qualname}: return {norm(shortcuts[0])} or ...", f"{init.qualname}: {head(st) if isinstance(st, ast.stmt) else ''}"],
            ))
    return r


# ------------------------------------------------------------------------------------------
# interpreter jobs shared by C08 / C15 / C16 / C18
# ------------------------------------------------------------------------------------------
def spec_node(root="spec"):
    return json_node(root, 0, taint=2)


def data_record(root="data"):
    """A Data object handed in by the caller, wrapping a document."""
    return mk("inst:data.Data", org=frozenset({(root, 0)}), taint=1, fields=(
        ("_is_list", BOOL),
        ("_keys", mk("tuple", elem=AVal(types=frozenset({"json"}), org=frozenset({(root, 1)}), taint=2, hk=True), nonempty=True, org=frozenset({(root, 1)}))),
        ("_values", AVal(types=frozenset({"list", "tuple"}), elem=AVal(types=frozenset({"json"}), org=frozenset({(root, 1)}), taint=2), nonempty=True, org=frozenset({(root, 1)}))),
    ))


def pure_jobs(ctx):
    def build():
        prog = ctx.prog
        cfg = {"deepcopy_root": "PRIV", "newinit_guarded": newinit_guarded_set(prog)}
        cond = obj("conditions.ConditionLike", "cond")
        priv = AVal(types=frozenset({"list", "dict"}), org=frozenset({("PRIV", 0)}), taint=2, nonempty=True,
                    elem=json_node("PRIV", 1), key=json_node("PRIV", 1))
        jobs = [
            ("validate", "schema.Schema.validate", {"self": obj("schema.Schema", "schema"), "data": doc_root("data")}, cfg, CONCRETE_SPLIT, None),
            ("validate_wrapped", "schema.Schema.validate", {"self": obj("schema.Schema", "schema"), "data": data_record("data")}, cfg, CONCRETE_SPLIT, None),
            ("rule_test", "rules.Rule.test", {"self": obj("rules.Rule", "rule"), "data": doc_root("data"), "_data_copy": NONE}, cfg, CONCRETE_SPLIT, None),
            ("rule_test_shared", "rules.Rule.test", {"self": obj("rules.Rule", "rule"), "data": data_record("data"), "_data_copy": priv}, cfg, CONCRETE_SPLIT, None),
            ("filter", "conditions.ConditionLike.filter", {"self": cond, "data": doc_root("data"), "data_has_paths": const(False), "source_data": join(NONE, data_record("source"))}, cfg, CONCRETE_SPLIT, None),
            ("filter_wrapped", "conditions.ConditionLike.filter", {"self": cond, "data": data_record("data"), "data_has_paths": const(False), "source_data": NONE}, cfg, CONCRETE_SPLIT, None),
            ("cond_test", "conditions.ConditionLike.test", {"self": cond, "datum": json_node("data", 0)}, cfg, None, None),
            ("cond_test_all", "conditions.ConditionLike.test_all", {"self": cond, "data": doc_root("data")}, cfg, None, None),
            ("data_filter", "data.Data.filter", {"self": data_record("data"), "condition_like": cond}, cfg, None, None),
            ("data_get", "data.Data.get", {"self": data_record("data"), "path_parts": mk("tuple", elem=join_all([obj("datapath.DataPath", "path"), obj("datapath.ContainerValue", "path"), AVal(types=frozenset({"str", "int", "float"}), org=frozenset({("path", 0)}))])), "return_paths": BOOL}, cfg, CONCRETE_SPLIT, None),
            ("get_data", "datapath.DataPath.get_data", {"self": obj("datapath.DataPath", "path"), "data": join(doc_root("data"), data_record("data")), "return_paths": BOOL}, cfg, CONCRETE_SPLIT, None),
            ("part_filter", "datapath.MapOrListValue.filter", {"self": obj("datapath.MapOrListValue", "part"), "data": join(doc_root("data"), data_record("data"))}, cfg, None, None),
            ("map_filter", "datapath.MapValue.filter", {"self": obj("datapath.MapValue", "part"), "data": join(doc_root("data"), data_record("data"))}, cfg, None, None),
            ("list_filter", "datapath.ListValue.filter", {"self": obj("datapath.ListValue", "part"), "data": join(doc_root("data"), data_record("data"))}, cfg, None, None),
        ]
        # result objects: every property / report method / dunder of the result classes
        for cq in ("rules.RuleTest", "schema.ValidatedData", "data.FilteredData", "data.FilteredDataBinaryOp", "data.FilteredDataItem"):
            c = prog.cls(cq)
            seen = set()
            from .astutil import construction_helpers
            ctor_parts = construction_helpers(prog, c)
            for k in c.mro:
                for name, f in k.methods.items():
                    if name in seen or name in ("__init__", "__new__") or name in ctor_parts:
                        continue
                    seen.add(name)
                    if len([p for p in f.params if p.default is None and p.kind in ("POSITIONAL_OR_KEYWORD",)]) != 1:
                        continue
                    jobs.append((f"result:{cq}.{name}", f.qualname, {"self": obj(cq, "result")}, cfg, None, None))
        return run_jobs(prog, jobs), [j[0] for j in jobs]
    return ctx.cached("purejobs", build)


def mutation_rule(name, merged_list, protected, what, floor=1, allow=None):
    """No store into / mutating call on an object whose origin is a protected root."""
    r = RuleResult(name, floor=floor)
    seen = set()
    for label, merged in merged_list:
        for e in merged.by_kind("mut"):
            k = (e.func, e.text, e.detail.get("how"))
            org = {tuple(o) for o in e.detail.get("org", [])}
            hit = sorted(o for o in org if o[0] in protected)
            inst = {"site": f"{e.func}: {e.text}", "how": e.detail.get("how"), "target": e.detail.get("target"), "entry": label}
            if (k, bool(hit)) in seen:
                continue
            seen.add((k, bool(hit)))
            r.instances.append(inst)
            if not hit:
                inst["verdict"] = "target is fresh / private to the call"
                r.ok()
                continue
            if allow and allow(e, hit):
                inst["verdict"] = "allowed: " + allow(e, hit)
                r.exemptions_used.append(inst)
                r.ok()
                continue
            inst["verdict"] = "MUTATES " + ", ".join(f"{a}{'.*' if d else ''}" for a, d in hit)
            chain = [f"{fr[0]} @ {fr[1]}: {fr[2]}" for fr in e.detail.get("chain", ())]
            r.fail(Finding(
                rule=name,
                key=f"R-PURE|{e.func}|{e.text}",
                where=f"{e.file}:{e.line}",
                message=f"`{e.text}` ({e.detail.get('how')}) in {e.func} modifies an object that existed before {what} "
                        f"(origin: {', '.join(a + ('.*' if d else '') for a, d in hit)}; abstract target {e.detail.get('target')})",
                witness=chain + [f"{e.func} @ {e.file}:{e.line}: {e.text}"],
            ))
    return r


def escape_rule(name, merged_list, private_root, protected, what, floor=1):
    """No protected object may be stored into the private copy (R-ESCAPE)."""
    r = RuleResult(name, floor=floor)
    seen = set()
    for label, merged in merged_list:
        for e in merged.by_kind("store"):
            torg = {tuple(o) for o in e.detail.get("target_org", [])}
            if not any(o[0] == private_root for o in torg):
                continue
            vorg = {tuple(o) for o in e.detail.get("value_org", [])}
            hit = sorted(o for o in vorg if o[0] in protected)
            k = (e.func, e.text, bool(hit))
            if k in seen:
                continue
            seen.add(k)
            inst = {"site": f"{e.func}: {e.text}", "stored_value": e.detail.get("value"), "into": e.detail.get("target"), "entry": label}
            r.instances.append(inst)
            if not hit:
                inst["verdict"] = "stored value is fresh"
                r.ok()
                continue
            inst["verdict"] = "ALIASES " + ", ".join(f"{a}{'.*' if d else ''}" for a, d in hit)
            chain = [f"{fr[0]} @ {fr[1]}: {fr[2]}" for fr in e.detail.get("chain", ())]
            r.fail(Finding(
                rule=name,
                key=f"R-ESCAPE|{e.func}|{e.text}",
                where=f"{e.file}:{e.line}",
                message=f"`{e.text}` in {e.func} stores an object of the caller's ({', '.join(a + ('.*' if d else '') for a, d in hit)}) into the private copy {what}: "
                        f"a later write through the copy would change the caller's object",
                witness=chain + [f"{e.func} @ {e.file}:{e.line}: {e.text}"],
            ))
    return r


PARSE_ENTRIES = [
    ("conditions.ConditionLike.from_spec", None, "spec"),
    ("conditions.ConditionLike.from_json_like", "conditions.ConditionLike", "json_like"),
    ("datapath.DataPath.from_spec", "datapath.DataPath", "spec"),
    ("datapath.DataPath.from_json_like", "datapath.DataPath", "json_like"),
    ("datapath.DataPath.from_part_specs", "datapath.DataPath", "*parts"),
    ("datapath.ContainerValue.from_spec", None, "spec"),
    ("rules.Rule.from_spec", "rules.Rule", "spec"),
    ("rules.Rule.from_json_like", "rules.Rule", "json_like"),
    ("schema.Schema.from_json_like", "schema.Schema", "json_like"),
    ("schema.Schema.init_rules", None, "rules_dat"),
]


def parse_jobs(ctx):
    def build():
        prog = ctx.prog
        from .reflect import getattr_targets
        cfg = {"newinit_guarded": newinit_guarded_set(prog), "getattr_targets": getattr_targets(prog)}
        jobs = []
        for qual, clsq, param in PARSE_ENTRIES:
            f = prog.func(qual)
            args = {}
            if clsq:
                args[f.params[0].name] = mk(f"cls:{clsq}")
            if param.startswith("*"):
                args[param[1:]] = mk("tuple", elem=spec_node("spec"), taint=1)
            else:
                args[param] = spec_node("spec")
            for p in f.params:
                if p.name not in args and p.kind == "VAR_POSITIONAL":
                    args[p.name] = mk("tuple", tup=())
                elif p.name not in args and p.kind == "VAR_KEYWORD":
                    args[p.name] = mk("dict")
            jobs.append((qual, qual, args, cfg, None, None))
        return run_jobs(prog, jobs), [j[0] for j in jobs]
    return ctx.cached("parsejobs", build)


def op_jobs(ctx):
    """Building and inspecting combinations: operands a, b are protected."""
    def build():
        prog = ctx.prog
        cfg = {"newinit_guarded": newinit_guarded_set(prog)}
        a, b = obj("conditions.ConditionLike", "a"), obj("conditions.ConditionLike", "b")
        jobs = []
        for d in ("__and__", "__or__", "__xor__"):
            jobs.append((d, f"conditions.ConditionLike.{d}", {"self": a, "other": b}, cfg, None, None))
        for m in ("flatten", "is_null", "is_key_like", "is_index_like", "is_value_like"):
            jobs.append((m, f"conditions.ConditionLike.{m}", {"self": a}, cfg, None, None))
        jobs.append(("is_like", "conditions.ConditionLike.is_like", {"self": a, "cls": mk("cls:conditions.KeyLike")}, cfg, None, None))
        jobs.append(("__repr__", "conditions.ConditionBinaryOp.__repr__", {"self": obj("conditions.ConditionBinaryOp", "a")}, cfg, None, None))
        for cq in ("datapath.MapValue", "datapath.ListValue"):
            c = prog.cls(cq)
            init = c.lookup_method("__init__")
            args = {"self": mk(f"inst:{cq}", fields=())}
            for p in init.params[1:]:
                args[p.name] = join(NONE, a) if p.name in ("condition",) else (join(NONE, b) if p.name in ("key", "index", "value") else NONE)
            jobs.append((f"{cq}.__init__", init.qualname, args, cfg, None, None))
        return run_jobs(prog, jobs), [j[0] for j in jobs]
    return ctx.cached("opjobs", build)


def misc_jobs(ctx):
    """add_schema (C18), serialisers (C12/C13/C11), documentation tree (C20)."""
    def build():
        prog = ctx.prog
        cfg = {"newinit_guarded": newinit_guarded_set(prog), "deepcopy_root": None}
        jobs = [
            ("add_schema", "schema.Schema.add_schema", {"self": obj("schema.Schema", "S"), "schema": obj("schema.Schema", "T"), "root_path": obj("datapath.DataPath", "R")}, cfg, CONCRETE_SPLIT, None),
            ("to_part_specs", "datapath.DataPath.to_part_specs", {"self": obj("datapath.DataPath", "path")}, cfg, None, None),
            ("simplify", "datapath.DataPath.simplify", {"self": obj("datapath.DataPath", "path")}, cfg, None, None),
            ("rule_to_json", "rules.Rule.to_json_like", {"self": obj("rules.Rule", "rule"), "args": mk("tuple", tup=()), "kwargs": mk("dict")}, cfg, None, None),
            ("schema_to_json", "schema.Schema.to_json_like", {"self": obj("schema.Schema", "schema"), "args": mk("tuple", tup=()), "kwargs": mk("dict")}, cfg, None, None),
            ("cond_to_json", "conditions.Condition.to_json_like", {"self": obj("conditions.Condition", "cond"), "args": mk("tuple", tup=()), "kwargs": mk("dict")}, cfg, None, None),
            ("to_tree", "schema.Schema.to_tree", {"self": obj("schema.Schema", "schema"), "nested": BOOL, "from_path": join(NONE, mk("list", elem=mk("any", org=frozenset({("from_path", 1)})), org=frozenset({("from_path", 0)})))}, cfg, None, None),
        ]
        return run_jobs(prog, jobs)
    return ctx.cached("miscjobs", build)


def alias_rule(name, merged, receiver_root, source_roots, what):
    """No *mutable container* reachable from a protected source may be stored into the
    receiver (sharing it would let a later change of the receiver alter the source)."""
    r = RuleResult(name, floor=1)
    seen = set()
    for e in merged.by_kind("store"):
        torg = {tuple(o) for o in e.detail.get("target_org", [])}
        if not any(o[0] == receiver_root for o in torg):
            continue
        val = e.detail.get("value", "")
        vorg = {tuple(o) for o in e.detail.get("value_org", [])}
        head_types = val.split("@")[0].split("!")[0].split("[")[0].split("=")[0]
        is_container = any(t in ("list", "dict", "set") for t in head_types.split(","))
        # origin of the stored object itself (before the first '[' of its rendering)
        own = val.split("[")[0]
        own_hit = [r_ for r_ in source_roots if f"@{r_}" in own or f",{r_}" in own.split("@")[-1]]
        k = (e.func, e.text)
        if k in seen:
            continue
        seen.add(k)
        inst = {"site": f"{e.func}: {e.text}", "stored": val[:120]}
        r.instances.append(inst)
        if is_container and own_hit:
            r.fail(Finding(name, f"R-ALIAS|{e.func}|{e.text}", f"{e.file}:{e.line}",
                           f"`{e.text}` in {e.func} stores a mutable container of {what} ({val[:80]}) into the receiver: both now share it, so a later change through one alters the other", []))
        else:
            r.ok()
    return r
