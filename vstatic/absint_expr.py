"""Expression evaluation, truth evaluation and narrowing for the abstract interpreter."""

from __future__ import annotations

import ast
from dataclasses import replace

from .aval import (is_fresh_empty, ANY, AVal, BOOL, BOTTOM, FLOAT, INT, JSON_TAGS, NONE, STR, TYPE, clip, const,
                   deeper, elem_of, join, join_all, key_of, mk, narrow_json, remove_tags)
from .absint import LT, PC
from .program import ClassInfo, External, FuncInfo, Module, norm
from .pymodel import (BINOP_RAISES, CMP_RAISES, METHODS_BY_TAG, UNARY_RAISES, UNIVERSAL_ATTRS)

BUILTIN_TYPES = {"int", "float", "str", "list", "dict", "tuple", "set", "bool", "frozenset", "bytes", "range", "object", "type", "slice"}
TYPE_TAGS = {
    "int": {"int", "bool"}, "float": {"float"}, "str": {"str"}, "list": {"list"}, "dict": {"dict"},
    "tuple": {"tuple"}, "set": {"set"}, "bool": {"bool"}, "frozenset": {"set"}, "range": {"range"},
    "bytes": {"bytes"},
}
DUNDER = {
    ast.BitAnd: ("__and__", "__rand__"), ast.BitOr: ("__or__", "__ror__"), ast.BitXor: ("__xor__", "__rxor__"),
    ast.Div: ("__truediv__", "__rtruediv__"), ast.Add: ("__add__", "__radd__"), ast.Sub: ("__sub__", "__rsub__"),
    ast.Mult: ("__mul__", "__rmul__"), ast.Mod: ("__mod__", "__rmod__"), ast.FloorDiv: ("__floordiv__", "__rfloordiv__"),
}
ONLY_ON = {  # method name -> JSON types that have it (narrowing after a successful call)
    "items": {"dict"}, "keys": {"dict"}, "values": {"dict"}, "get": {"dict"}, "update": {"dict"},
    "setdefault": {"dict"}, "popitem": {"dict"}, "pop": {"dict", "list"}, "copy": {"dict", "list"},
    "append": {"list"}, "extend": {"list"}, "insert": {"list"}, "sort": {"list"}, "reverse": {"list"},
    "remove": {"list"}, "index": {"list", "str"}, "count": {"list", "str"}, "clear": {"dict", "list"},
}


def taint1(*vals):
    return 1 if any(v.taint for v in vals) else 0


class ExprMixin:
    # ------------------------------------------------------------------------------------
    def ev(self, node, env, frame) -> AVal:
        m = getattr(self, "e_" + type(node).__name__, None)
        if m is None:
            self.event("unmodelled", frame, node, what=type(node).__name__)
            return ANY
        return m(node, env, frame)

    def e_Constant(self, node, env, frame):
        return const(node.value)

    def e_Name(self, node, env, frame):
        if node.id in env:
            return env[node.id]
        return self.global_name(frame.func.module, node.id, frame, node)

    def global_name(self, module, name, frame, node):
        ent = self.prog.resolve_name(module, name)
        return self.entity_value(ent, frame, node, name)

    def entity_value(self, ent, frame, node, name=""):
        if isinstance(ent, ClassInfo):
            return mk(f"cls:{ent.qualname}")
        if isinstance(ent, FuncInfo):
            return mk(f"func:{ent.qualname}")
        if isinstance(ent, Module):
            return mk("mod", const=("mod", ent.name))
        if ent == ("pkg",):
            return mk("mod", const=("mod", ""))
        if isinstance(ent, External):
            short = ent.name
            if short in BUILTIN_TYPES:
                return mk("type", const=("type", short))
            if short == "pathlib.Path":
                return mk("type", const=("type", "path"))
            return mk(f"bfunc:{short}")
        if isinstance(ent, tuple) and ent and ent[0] == "const":
            return self.module_constant(ent[1], ent[2], frame)
        if isinstance(ent, tuple) and ent and ent[0] == "classattr":
            return self.class_attr_value(ent[1], ent[2], frame, node, exact=True)
        if frame is not None and node is not None:
            self.event("unmodelled", frame, node, what=f"unresolved name {name}")
        return ANY

    def module_constant(self, module, name, frame):
        cache = self.__dict__.setdefault("_modconst", {})
        k = (module.name, name)
        if k not in cache:
            cache[k] = ANY
            from .absint import Frame
            fake = type("F", (), {})()
            fake.module = module; fake.qualname = f"{module.name}.<module>"; fake.file = module.relpath; fake.cls = None
            fr = Frame(fake, ())
            v = self.ev(module.constants[name], {PC: False, LT: False}, fr)
            if v.types & {"dict", "list", "set"}:
                # module-level mutable state: a store into it is a write to global state
                def _glob(x, depth=0):
                    if x is None or x.is_bottom:
                        return x
                    org = frozenset({("global", 1 if depth else 0)}) if x.types & {"dict", "list", "set"} else x.org
                    return replace(x, org=org, elem=_glob(x.elem, depth + 1), key=x.key,
                                   tup=tuple(_glob(t, depth + 1) for t in x.tup) if x.tup is not None else None)
                v = _glob(v)
            cache[k] = v
        return cache[k]

    # -- displays ----------------------------------------------------------------------------
    def _display(self, tag, node, env, frame):
        vals = []
        star = False
        for e in node.elts:
            if isinstance(e, ast.Starred):
                sv = self.ev(e.value, env, frame)
                self.iter_ops(sv, e.value, env, frame)
                if sv.tup is not None:
                    vals.extend(sv.tup)
                else:
                    star = True
                    vals.append(("*", self.iter_elem(sv, e.value, env, frame), sv))
            else:
                vals.append(self.ev(e, env, frame))
        plain = [v for v in vals if not isinstance(v, tuple)]
        stars = [v for v in vals if isinstance(v, tuple)]
        t = max([0] + [1 for s in stars if s[2].taint])
        if env.get(LT):
            t = max(t, 0)
        if tag == "tuple" and not star:
            return mk("tuple", tup=tuple(plain), nonempty=bool(plain))
        allv = plain + [s[1] for s in stars]
        el = join_all(allv) if allv else None
        return mk(tag, elem=el if el is not None and not el.is_bottom else None,
                  nonempty=bool(plain) or any(s[2].nonempty for s in stars), taint=t)

    def e_List(self, node, env, frame):
        return self._display("list", node, env, frame)

    def e_Tuple(self, node, env, frame):
        return self._display("tuple", node, env, frame)

    def e_Set(self, node, env, frame):
        v = self._display("set", node, env, frame)
        self.hash_ops(elem_of(v) if v.elem is not None else BOTTOM, node, env, frame)
        return v

    def e_Dict(self, node, env, frame):
        ks, vs = [], []
        ne = False
        for k, v in zip(node.keys, node.values):
            vv = self.ev(v, env, frame)
            if k is None:
                ks.append(key_of(vv)); vs.append(elem_of(vv)); ne = ne or vv.nonempty
            else:
                kv = self.ev(k, env, frame)
                self.hash_ops(kv, k, env, frame)
                ks.append(kv); vs.append(vv); ne = True
        return mk("dict", key=join_all(ks) if ks else None, elem=join_all(vs) if vs else None, nonempty=ne)

    def e_Starred(self, node, env, frame):
        return self.ev(node.value, env, frame)

    def e_Slice(self, node, env, frame):
        for p in (node.lower, node.upper, node.step):
            if p is not None:
                self.ev(p, env, frame)
        return mk("slice")

    def e_JoinedStr(self, node, env, frame):
        t = 0
        for v in node.values:
            if isinstance(v, ast.FormattedValue):
                x = self.ev(v.value, env, frame)
                t = max(t, 1 if x.taint else 0)
                if v.format_spec is not None:
                    self.ev(v.format_spec, env, frame)
        return mk("str", taint=t)

    def e_FormattedValue(self, node, env, frame):
        self.ev(node.value, env, frame)
        return STR

    def e_Lambda(self, node, env, frame):
        frame.lambdas[id(node)] = (node, env)
        self.__dict__.setdefault("_lambdas", {})[id(node)] = (node, env, frame)
        return mk("lambda", const=("lambda", id(node)))

    def e_NamedExpr(self, node, env, frame):
        return self.ev(node.value, env, frame)

    def e_Yield(self, node, env, frame):
        v = self.ev(node.value, env, frame) if node.value is not None else NONE
        frame.yields = join(frame.yields, v)
        return NONE

    def e_Await(self, node, env, frame):
        return self.ev(node.value, env, frame)

    # -- comprehensions ---------------------------------------------------------------------
    def _comp_env(self, generators, env, frame):
        env = dict(env)
        ne = True
        t = 0
        for g in generators:
            it = self.ev(g.iter, env, frame)
            self.iter_ops(it, g.iter, env, frame)
            el = self.iter_elem(it, g.iter, env, frame)
            from .absint import key_source
            ks = key_source(g.iter, it)
            if ks and not el.is_bottom and el.kof is None:
                el = replace(el, kof=ks)
            ne = ne and it.nonempty
            t = max(t, 1 if it.taint else 0)
            if it.taint:
                env[LT] = True
            env = self.assign(g.target, el, env, frame, g.iter)
            for cond in g.ifs:
                tv = self.ev(cond, env, frame)
                ne = False
                t = max(t, 1 if tv.taint else 0)
                e2 = self.narrow(cond, env, True, frame)
                if e2 is None:
                    return None, False, t
                env = e2
        return env, ne, t

    def e_ListComp(self, node, env, frame, tag="list"):
        cenv, ne, t = self._comp_env(node.generators, env, frame)
        if cenv is None:
            return mk(tag)
        el = self.ev(node.elt, cenv, frame)
        return mk(tag, elem=el if not el.is_bottom else None, nonempty=ne, taint=max(t, 1 if env.get(LT) and False else t))

    def e_SetComp(self, node, env, frame):
        v = self.e_ListComp(node, env, frame, tag="set")
        if v.elem is not None:
            self.hash_ops(v.elem, node.elt, env, frame)
        return v

    def e_GeneratorExp(self, node, env, frame):
        return self.e_ListComp(node, env, frame, tag="iter")

    def e_DictComp(self, node, env, frame):
        cenv, ne, t = self._comp_env(node.generators, env, frame)
        if cenv is None:
            return mk("dict")
        k = self.ev(node.key, cenv, frame)
        self.hash_ops(k, node.key, cenv, frame)
        v = self.ev(node.value, cenv, frame)
        return mk("dict", key=k, elem=v, nonempty=ne, taint=t)

    # -- operators --------------------------------------------------------------------------------
    def e_UnaryOp(self, node, env, frame):
        v = self.ev(node.operand, env, frame)
        if isinstance(node.op, ast.Not):
            t = self.truth(v)
            if t is not None:
                return const(not t)
            return replace(BOOL, taint=taint1(v))
        if v.is_json and v.taint == 2:
            self.raise_many(frame, UNARY_RAISES[type(node.op)], node, env, True, reason="unary operator on input node")
        if v.has_const and isinstance(v.const_value(), (int, float)) and isinstance(node.op, ast.USub):
            return const(-v.const_value())
        return AVal(types=(v.types & {"int", "float", "bool"}) or frozenset({"any"}), taint=taint1(v))

    def e_BoolOp(self, node, env, frame):
        is_and = isinstance(node.op, ast.And)
        results = []
        cur = env
        for i, sub in enumerate(node.values):
            v = self.ev(sub, cur, frame)
            t = self.truth(v)
            last = i == len(node.values) - 1
            if last:
                results.append(v)
                break
            if is_and:
                if t is False:
                    results.append(v); break
                if t is None:
                    results.append(self._falsy_part(v))
                nxt = self.narrow(sub, cur, True, frame)
            else:
                if t is True:
                    results.append(v); break
                if t is None:
                    results.append(self._truthy_part(v))
                nxt = self.narrow(sub, cur, False, frame)
            if nxt is None:
                break
            if t is None and v.taint:
                nxt = dict(nxt); nxt[PC] = True
            cur = nxt
        out = join_all([r for r in results if not r.is_bottom]) if results else BOTTOM
        frame.parts = [r for r in results if not r.is_bottom]
        return out if not out.is_bottom else BOOL

    def _truthy_part(self, v):
        w = remove_tags(v, {"none"})
        return replace(w, nonempty=True) if not w.is_bottom and w.types & {"list", "dict", "tuple", "set", "str", "json"} else w

    def _falsy_part(self, v):
        if v.only("bool"):
            return const(False)
        return replace(v, nonempty=False, tup=None) if not v.is_bottom else v

    def e_IfExp(self, node, env, frame):
        tv = self.ev(node.test, env, frame)
        t = self.truth(tv)
        outs = []
        if t is not False:
            e1 = self.narrow(node.test, env, True, frame)
            if e1 is not None:
                e1 = dict(e1)
                if t is None and tv.taint:
                    e1[PC] = True
                outs.append(self.ev(node.body, e1, frame))
        if t is not True:
            e2 = self.narrow(node.test, env, False, frame)
            if e2 is not None:
                e2 = dict(e2)
                if t is None and tv.taint:
                    e2[PC] = True
                outs.append(self.ev(node.orelse, e2, frame))
        frame.parts = [o for o in outs if not o.is_bottom]
        return join_all(outs) if outs else BOTTOM

    def e_BinOp(self, node, env, frame):
        a = self.ev(node.left, env, frame)
        b = self.ev(node.right, env, frame)
        return self.binop_result(node.op, a, b, node, env, frame)

    def binop_result(self, op, a: AVal, b: AVal, node, env, frame):
        if a.is_bottom or b.is_bottom:
            return BOTTOM
        outs = []
        dn = DUNDER.get(type(op))
        handled = False
        if dn:
            for cq in a.inst_classes():
                for c in self._runtime_classes(a, cq):
                    f = c.lookup_method(dn[0])
                    if f is not None:
                        s = self.invoke(f, [replace(a, types=frozenset({f"inst:{c.qualname}"}) if a.fields is None else a.types), b], {}, None, None, node, env, frame)
                        if s is not None:
                            outs.append(s.ret); handled = True
            if not handled:
                for cq in b.inst_classes():
                    for c in self._runtime_classes(b, cq):
                        f = c.lookup_method(dn[1])
                        if f is not None:
                            s = self.invoke(f, [b, a], {}, None, None, node, env, frame)
                            if s is not None:
                                outs.append(s.ret); handled = True
        if handled and not (a.types - {t for t in a.types if t.startswith("inst:")}):
            return join_all(outs)
        j2 = (a.is_json and a.taint == 2) or (b.is_json and b.taint == 2)
        if j2:
            excs = BINOP_RAISES.get(type(op), ("TypeError",))
            if isinstance(op, ast.Mod):
                # `str % x` is printf-style formatting: ValueError (bad format), OverflowError ('%c'), KeyError
                # ('%(k)s' with a mapping), MemoryError ('%9999999999d').  Only when the LEFT operand may be a str.
                may_str = ("str" in a.types or ((a.is_json or "any" in a.types) and "!str" not in a.types))
                excs = ("TypeError", "ZeroDivisionError") + (FORMAT_RAISES if may_str else ())
            self.raise_many(frame, excs, node, env, True,
                            reason=f"operator {type(op).__name__} on input node of unknown type")
        elif isinstance(op, (ast.Div, ast.FloorDiv, ast.Mod)) and b.taint == 2 and b.types & {"int", "float", "bool"}:
            self.raise_exc(frame, "ZeroDivisionError", node, env, True, reason="division by input number")
        elif isinstance(op, ast.Mod) and a.taint == 2 and a.types & {"str"}:
            self.raise_many(frame, ("TypeError",) + FORMAT_RAISES, node, env, True, reason="%-formatting of input string")
        t = taint1(a, b)
        if a.has_const and b.has_const:
            try:
                import operator as _o
                fn = {ast.Add: _o.add, ast.Sub: _o.sub, ast.Mult: _o.mul}.get(type(op))
                if fn and isinstance(a.const_value(), (int, float, str)) and type(a.const_value()) == type(b.const_value()):
                    r = fn(a.const_value(), b.const_value())
                    if not isinstance(r, str) or len(r) < 200:
                        return const(r)
            except Exception:
                pass
        if isinstance(op, ast.Add):
            if a.types & {"list"} and b.types & {"list", "any", "json"} or (a.only("list", "tuple") and b.only("list", "tuple")):
                e = join(elem_of(a) if (a.elem is not None or a.tup) else BOTTOM, elem_of(b) if (b.elem is not None or b.tup or b.is_json) else BOTTOM)
                tag = "list" if a.types & {"list"} else "tuple"
                outs.append(mk(tag, elem=e if not e.is_bottom else None, nonempty=a.nonempty or b.nonempty, taint=max(a.taint and 1, b.taint and 1, 1 if env.get(LT) else 0)))
                return join_all(outs)
            if a.types & {"str"} and b.types & {"str"} and a.only("str") and b.only("str"):
                return mk("str", taint=t, nonempty=a.nonempty or b.nonempty)
        if isinstance(op, ast.Mod) and a.only("str"):
            return mk("str", taint=t)
        if isinstance(op, ast.Mult) and (a.only("str") or b.only("str")):
            return mk("str", taint=t)
        num = (a.types | b.types) & {"int", "float", "bool"}
        if num and not j2 and not ((a.types | b.types) - {"int", "float", "bool"}):
            res = {"float"} if isinstance(op, ast.Div) or "float" in num else {"int"}
            if "float" in num and "int" in num:
                res = {"int", "float"}
            outs.append(AVal(types=frozenset(res), taint=t))
            return join_all(outs)
        outs.append(mk("any", taint=t))
        return join_all(outs)

    def e_Compare(self, node, env, frame):
        left = self.ev(node.left, env, frame)
        res = None
        known = True
        t = 0
        for op, rn in zip(node.ops, node.comparators):
            right = self.ev(rn, env, frame)
            t = max(t, taint1(left, right))
            r = self.compare_one(op, left, right, node, env, frame)
            if r is None:
                known = False
            elif r is False:
                return const(False)
            left = right
        if known:
            return const(True)
        return replace(BOOL, taint=t)

    def compare_one(self, op, a: AVal, b: AVal, node, env, frame):
        """Record what the comparison may raise; return True/False when decidable."""
        ja = a.is_json and a.taint == 2
        jb = b.is_json and b.taint == 2
        if isinstance(op, (ast.In, ast.NotIn)):
            if jb:
                self.raise_exc(frame, "TypeError", node, env, True, reason="membership test in input node of unknown type")
            elif ja and b.types & {"dict", "set", "str"}:
                self.raise_exc(frame, "TypeError", node, env, True, reason="input node of unknown type hashed / searched in str")
            elif b.taint == 2 and b.types & {"str"} and not a.only("str"):
                self.raise_exc(frame, "TypeError", node, env, True, reason="non-str searched in input str")
            elif a.taint == 2 and not a.only("str") and b.only("str") and not (a.types & {"str"} and len(a.types) == 1):
                if a.types - {"str"}:
                    self.raise_exc(frame, "TypeError", node, env, True, reason="input value of non-str type searched in str")
            for cq in b.inst_classes():
                c = self.prog.classes.get(cq)
                for nm in ("__contains__", "__iter__"):
                    f = c.lookup_method(nm) if c else None
                    if f is not None:
                        self.invoke(f, [b, a] if nm == "__contains__" else [b], {}, None, None, node, env, frame)
                        break
            self._eq_dunder(a, elem_of(b) if not b.is_bottom else b, node, env, frame)
            if a.has_const and b.tup is not None and all(x.has_const for x in b.tup):
                r = a.const_value() in [x.const_value() for x in b.tup]
                return r if isinstance(op, ast.In) else not r
            if b.elem is None and b.tup is None and not b.is_json and b.types and b.types <= {"list", "tuple", "dict", "set"} and not b.nonempty and b.key is None:
                # provably empty display
                if b.org == frozenset() and b.taint == 0 and isinstance(getattr(node, "comparators", [None])[0], (ast.List, ast.Tuple, ast.Dict, ast.Set)):
                    return isinstance(op, ast.NotIn)
            return None
        if (ja or jb) and CMP_RAISES.get(type(op)):
            self.raise_many(frame, CMP_RAISES[type(op)], node, env, True, reason="ordering comparison on input node of unknown type")
        if isinstance(op, (ast.Eq, ast.NotEq)):
            self._eq_dunder(a, b, node, env, frame)
        if isinstance(op, (ast.Is, ast.IsNot, ast.Eq, ast.NotEq)):
            pos = isinstance(op, (ast.Is, ast.Eq))
            if a.const is not None and b.const is not None and a.const[0] in ("c", "enum", "type") and b.const[0] in ("c", "enum", "type"):
                if a.const[0] == "c" and b.const[0] == "c" and isinstance(op, (ast.Is, ast.IsNot)) and not (a.const[1] is None or b.const[1] is None or isinstance(a.const[1], bool)):
                    return None
                eq = a.const == b.const
                return eq if pos else not eq
            # x is None / x == None with x provably not None
            for x, y in ((a, b), (b, a)):
                if y.const == ("c", None) and not x.is_bottom:
                    if not (x.types & {"none", "json", "any"}):
                        return (not pos)
            if a.cset() and b.const is not None and b.const not in a.cset() and b.const[0] in ("c", "enum"):
                return not pos
        return None

    def _eq_dunder(self, a, b, node, env, frame):
        for cq in a.inst_classes():
            c = self.prog.classes.get(cq)
            f = c.lookup_method("__eq__") if c else None
            if f is not None:
                self.invoke(f, [a, b], {}, None, None, node, env, frame)

    def hash_ops(self, v: AVal, node, env, frame):
        if not v.is_bottom and v.is_json and v.taint == 2 and not v.hk:
            self.raise_exc(frame, "TypeError", node, env, True, reason="input node of unknown type hashed")

    # -- attribute / subscript --------------------------------------------------------------------
    def e_Attribute(self, node, env, frame):
        base = self.ev(node.value, env, frame)
        v = self.attr(base, node.attr, node, env, frame)
        facts = env.get("$attrfacts")
        if facts and isinstance(node.value, ast.Name) and (node.value.id, node.attr) in facts and not v.is_bottom:
            # `if not x.a: return` was passed (and nothing that could rebind x.a ran since): x.a is truthy here
            if self.truth(v) is False or is_fresh_empty(v):
                return BOTTOM
            v = self._truthy_part(v)
        return v

    def _runtime_classes(self, v: AVal, cq):
        c = self.prog.classes.get(cq)
        if c is None:
            return []
        if v.fields is not None:
            return [c]
        subs = c.all_subclasses()
        conc = [k for k in subs if k.qualname not in self.abstract_classes()]
        return conc or subs

    def abstract_classes(self):
        """Classes with subclasses that no constructor call in the package names: never the
        run-time class of an object the package itself creates."""
        cache = self.__dict__.get("_abstract")
        if cache is None:
            named = set()
            for m in self.prog.modules.values():
                for n in ast.walk(m.tree):
                    if isinstance(n, ast.Call):
                        ent = self.prog.resolve_expr(m, n.func)
                        if isinstance(ent, ClassInfo):
                            named.add(ent.qualname)
                    elif isinstance(n, ast.Dict):
                        for v in n.values:
                            ent = self.prog.resolve_expr(m, v) if isinstance(v, (ast.Name, ast.Attribute)) else None
                            if isinstance(ent, ClassInfo):
                                named.add(ent.qualname)
            cache = {c.qualname for c in self.prog.classes.values() if c.subclasses and c.qualname not in named}
            self.__dict__["_abstract"] = cache
        return cache

    def attr(self, base: AVal, name: str, node, env, frame, for_call=False) -> AVal:
        if base.is_bottom:
            return BOTTOM
        outs = []
        for tag in sorted(base.types):
            if tag.startswith("inst:"):
                outs.append(self.inst_attr(base, tag[5:], name, node, env, frame))
            elif tag.startswith("cls:"):
                c = self.prog.classes[tag[4:]]
                outs.append(self.class_attr_value(c, name, frame, node, exact=True, env=env, clsval=mk(tag)))
            elif tag == "json":
                if name not in UNIVERSAL_ATTRS:
                    if base.taint == 2:
                        self.raise_exc(frame, "AttributeError", node, env, True, reason=f"attribute .{name} on input node of unknown type")
                outs.append(AVal(types=frozenset({"json" if base.taint == 2 else "any"}), org=deeper(base.org), taint=base.taint))
            elif tag == "mod":
                mn = base.const[1] if base.const else ""
                if mn == "":
                    m = self.prog.modules.get(name)
                    outs.append(mk("mod", const=("mod", m.name)) if m else ANY)
                else:
                    m = self.prog.modules[mn]
                    outs.append(self.global_name(m, name, frame, node))
            elif tag.startswith("bfunc:"):
                outs.append(self.entity_value(External(tag[6:] + "." + name), frame, node))
            elif tag == "type":
                if name == "__name__":
                    outs.append(const(base.const[1]) if base.const else STR)
                else:
                    outs.append(mk(f"bfunc:{(base.const[1] if base.const else 'type')}.{name}"))
            elif tag.startswith("func:"):
                outs.append(const(tag[5:].split(".")[-1]) if name == "__name__" else ANY)
            elif tag in METHODS_BY_TAG:
                if name in METHODS_BY_TAG[tag] or name in UNIVERSAL_ATTRS:
                    outs.append(mk("bmeth", const=("bmeth", tag, name), tup=(base,)))
                else:
                    if base.taint == 2 or tag == "none":
                        self.raise_exc(frame, "AttributeError", node, env, base.taint == 2, reason=f"attribute .{name} on {tag}")
                    if name == "__name__":
                        outs.append(STR)
            elif tag.startswith("exc:"):
                outs.append(ANY)
            else:
                if base.const and base.const[0] == "enum" and name in ("value", "name"):
                    continue
                outs.append(AVal(types=frozenset({"any"}), org=deeper(base.org), taint=min(base.taint, 1)))
        return join_all([o for o in outs if o is not None and not o.is_bottom]) if outs else BOTTOM

    def enum_member(self, c: ClassInfo, member: str):
        expr = c.attrs.get(member)
        return expr

    def inst_attr(self, base: AVal, cq: str, name: str, node, env, frame) -> AVal:
        c = self.prog.classes.get(cq)
        if c is None:
            return ANY
        # enum constants
        if base.const is not None and base.const[0] == "enum" and base.const[1] == cq:
            if name == "name":
                return const(base.const[2])
            if name == "value":
                expr = c.attrs.get(base.const[2])
                return self.ev(expr, {PC: False, LT: False}, frame) if expr is not None else ANY
        if base.cset():
            parts = []
            for cst in base.cset():
                if cst[0] == "enum" and cst[1] == cq:
                    parts.append(self.inst_attr(replace(base, const=cst), cq, name, node, env, frame))
            if parts:
                return join_all(parts)
        if c.is_enum() and name in ("value", "name"):
            vals = []
            for mname, expr in c.attrs.items():
                vals.append(const(mname) if name == "name" else self.ev(expr, {PC: False, LT: False}, frame))
            return join_all(vals) if vals else ANY
        fv = base.field(name)
        if name == "__class__":
            return join_all([mk(f"cls:{k.qualname}") for k in ([c] if base.fields is not None else [c])])
        if name == "__dict__":
            return mk("dict", key=STR, org=deeper(base.org))
        outs = []
        missing = False
        classes = self._runtime_classes(base, cq)
        seen_impl = set()
        for k in classes:
            owner, v = k.lookup(name)
            if isinstance(v, FuncInfo):
                if v.qualname in seen_impl:
                    continue
                seen_impl.add(v.qualname)
                if v.kind == "property":
                    s = self.invoke(v, [base if base.fields is not None else replace(base, types=frozenset({f"inst:{k.qualname}"}))], {}, None, None, node, env, frame)
                    if s is not None:
                        outs.append(s.ret)
                elif v.kind == "classproperty":
                    s = self.invoke(v, [mk(f"cls:{k.qualname}")], {}, None, None, node, env, frame)
                    if s is not None:
                        outs.append(s.ret)
                elif v.kind == "staticmethod":
                    outs.append(mk(f"func:{v.qualname}"))
                elif v.kind == "classmethod":
                    outs.append(mk("bmeth", const=("meth", v.qualname), tup=(mk(f"cls:{k.qualname}"),)))
                else:
                    outs.append(mk("bmeth", const=("meth", v.qualname), tup=(base,)))
            elif v is not None:
                if fv is not None:
                    continue
                key = ("cattr", owner.qualname, name)
                if key not in seen_impl:
                    seen_impl.add(key)
                    outs.append(self.class_attr_value(owner, name, frame, node, exact=True))
            else:
                has_field = name in k.all_fields()
                if fv is None and not has_field:
                    missing = True
        if fv is not None:
            outs.append(fv)
        else:
            if not self._always_assigned(classes, name):
                # a field that only some method other than __init__ assigns may not exist yet
                self.raise_exc(frame, "AttributeError", node, env, False, reason=f"attribute {name} is not assigned by __init__ and may be missing")
            h = self.hint(cq, name, base)
            if h is not None:
                outs.append(h)
            elif any(name in k.all_fields() for k in classes):
                if not any(isinstance(k.lookup(name)[1], FuncInfo) for k in classes):
                    outs.append(AVal(types=frozenset({"any"}), org=deeper(base.org), taint=min(base.taint, 1)))
        if missing and not outs:
            self.raise_exc(frame, "AttributeError", node, env, False, reason=f"no attribute {name} on {cq}")
            return BOTTOM
        if missing:
            self.raise_exc(frame, "AttributeError", node, env, False, reason=f"attribute {name} missing on some subclass of {cq}")
        return join_all(outs) if outs else ANY

    def _always_assigned(self, classes, name):
        cache = self.__dict__.setdefault("_init_fields", {})
        for k in classes:
            key = (k.qualname, name)
            if key not in cache:
                ok = False
                for m in k.mro:
                    if name in m.attrs or name in m.methods:
                        ok = True
                    init = m.methods.get("__init__")
                    if init is not None:
                        for (fn, st) in m.own_fields.get(name, []):
                            if fn is init:
                                ok = True
                    for pname, sf in m.setters.items():
                        # field stored by a property setter that __init__ assigns through
                        if any(fn is sf for fn, _ in m.own_fields.get(name, [])):
                            for mm in k.mro:
                                if any(fn.name == "__init__" for fn, _ in mm.own_fields.get(pname, [])):
                                    ok = True
                if not any(name in m.all_fields() for m in [k]):
                    ok = True   # not a known field at all: handled by the 'missing' logic
                cache[key] = ok
            if not cache[key]:
                return False
        return True

    def hint(self, cq, name, base: AVal):
        c = self.prog.classes.get(cq)
        if c is None:
            return None
        org = base.org
        sh = base.field("$shallow_of")
        if sh is not None:
            org = org | sh.org
        # a subclass may declare the field (generic receiver)
        for k in list(c.mro) + c.all_subclasses(include_self=False):
            h = self.hints.get((k.qualname, name))
            if h is not None:
                v = h(self, base) if callable(h) else h
                return _with_org(v, deeper(org)) if org else v
        return None

    def class_attr_value(self, c: ClassInfo, name, frame, node, exact=False, env=None, clsval=None) -> AVal:
        if name == "__name__":
            return const(c.name)
        if name == "__class__":
            return TYPE
        owner, v = c.lookup(name)
        if v is None:
            if c.is_enum() and name in ("__members__",):
                return ANY
            if frame is not None and node is not None:
                self.raise_exc(frame, "AttributeError", node, env or {PC: False}, False, reason=f"class {c.qualname} has no attribute {name}")
            return BOTTOM
        if isinstance(v, FuncInfo):
            if v.kind == "classproperty":
                s = self.invoke(v, [clsval or mk(f"cls:{c.qualname}")], {}, None, None, node, env or {PC: False, LT: False}, frame)
                return s.ret if s is not None else ANY
            if v.kind == "classmethod":
                return mk("bmeth", const=("meth", v.qualname), tup=(clsval or mk(f"cls:{c.qualname}"),))
            return mk(f"func:{v.qualname}")
        if owner.is_enum() and not name.startswith("_"):
            return mk(f"inst:{owner.qualname}", const=("enum", owner.qualname, name))
        fake = type("F", (), {})()
        fake.module = owner.module; fake.qualname = owner.qualname; fake.file = owner.module.relpath; fake.cls = owner
        from .absint import Frame
        cv = self.ev(v, {PC: False, LT: False}, Frame(fake, ()))
        if cv.types & {"dict", "list", "set"} and not cv.is_json:
            # class-level mutable state is shared by all instances: a store into it is a write to global state
            def _glob(x, depth=0):
                if x is None or x.is_bottom:
                    return x
                org = frozenset({("global", 1 if depth else 0)}) if x.types & {"dict", "list", "set"} else x.org
                return replace(x, org=org, elem=_glob(x.elem, depth + 1), key=x.key,
                               tup=tuple(_glob(t, depth + 1) for t in x.tup) if x.tup is not None else None)
            cv = _glob(cv)
        return cv

    def e_Subscript(self, node, env, frame):
        base = self.ev(node.value, env, frame)
        k = self.ev(node.slice, env, frame)
        known = False
        if k.kof is not None and k.kof == norm(node.value):
            known = True
        if isinstance(node.value, ast.Name):
            t = node.value.id
            if k.kof == t:
                known = True
            elif k.has_const and (t, k.const_value()) in (env.get("$keys") or ()):
                known = True
            elif (norm(node.slice), t) in (env.get("$mem") or ()):
                known = True
        return self.subscript(base, k, node, env, frame, key_known=known)

    def subscript(self, base: AVal, k: AVal, node, env, frame, key_known=False) -> AVal:
        if base.is_bottom:
            return BOTTOM
        if key_known:
            q = _Quiet(self)
            with q:
                return self.subscript(base, k, node, env, frame, key_known=False)
        is_slice = isinstance(getattr(node, "slice", None), ast.Slice)
        kc = k.const_value(None) if k.has_const else None
        if base.is_json and base.taint == 2:
            excs = ["TypeError", "KeyError"]
            if not k.only("str"):
                excs.append("IndexError")
            if is_slice:
                excs = ["TypeError"]
            self.raise_many(frame, excs, node, env, True, reason="subscript on input node of unknown type")
        elif base.taint == 2:
            if base.types & {"dict"} and not is_slice:
                self.raise_exc(frame, "KeyError", node, env, True, reason="key lookup in input mapping")
                if k.is_json and k.taint == 2:
                    self.raise_exc(frame, "TypeError", node, env, True, reason="unhashable key")
            if base.types & {"list", "tuple", "str"} and isinstance(kc, int) and not isinstance(kc, bool) and not base.nonempty and not is_slice:
                self.raise_exc(frame, "IndexError", node, env, True, reason="constant index into possibly empty input sequence")
            if base.types & {"list", "tuple", "str"} and k.types & {"str"} and not is_slice:
                self.raise_exc(frame, "TypeError", node, env, True, reason="str index into input sequence")
        elif k.is_json and k.taint == 2 and not is_slice:
            if base.types & {"dict"}:
                self.raise_many(frame, ("TypeError", "KeyError"), node, env, True, reason="input node used as key of a library mapping")
            if base.types & {"list", "tuple", "str"}:
                self.raise_many(frame, ("TypeError", "IndexError"), node, env, True, reason="input node used as index of a library sequence")
        elif k.taint == 2 and base.types & {"dict"} and not is_slice:
            self.raise_exc(frame, "KeyError", node, env, True, reason="input value used as key of a library mapping")
        elif _key_taint(k) >= 1 and k.taint < 2 and base.types & {"dict"} and not base.is_json and not is_slice and not (k.has_const and base.key is not None and base.key.cset() and ("c", k.const_value()) in base.key.cset()):
            self.raise_exc(frame, "KeyError", node, env, True, reason="value derived from the input used as key of a library mapping")
        outs = []
        for cq in base.inst_classes():
            for c in self._runtime_classes(base, cq)[:1]:
                f = c.lookup_method("__getitem__")
                if f is not None:
                    s = self.invoke(f, [base, k], {}, None, None, node, env, frame)
                    if s is not None:
                        outs.append(s.ret)
        rest = base.types - {t for t in base.types if t.startswith("inst:")}
        if rest:
            if is_slice:
                outs.append(replace(base, types=frozenset(rest), nonempty=False, tup=None,
                                    elem=elem_of(base) if (base.elem is not None or base.tup or base.is_json) else None, const=None))
            elif base.tup is not None and isinstance(kc, int) and -len(base.tup) <= kc < len(base.tup):
                outs.append(base.tup[kc])
                rest2 = (rest - {"tuple"}) if "tuple" in rest else frozenset()
                if rest2 & {"list", "dict", "json", "any", "str", "range"}:
                    outs.append(elem_of(replace(base, tup=None, types=frozenset(rest2))))
            else:
                outs.append(elem_of(replace(base, types=frozenset(rest))))
        res = join_all(outs) if outs else BOTTOM
        if not res.is_bottom and _key_taint(k) > 0 and res.taint == 0 and not is_slice:
            # which element is selected depends on the input
            res = replace(res, taint=1)
        return res

    # -- iteration helpers -------------------------------------------------------------------------
    def iter_ops(self, it: AVal, node, env, frame):
        if it.is_json and it.taint == 2:
            self.raise_exc(frame, "TypeError", node, env, True, reason="iteration over input node of unknown type")
        elif it.taint == 2 and it.types & {"none", "int", "float", "bool"}:
            self.raise_exc(frame, "TypeError", node, env, True, reason="iteration over input scalar")

    def iter_elem(self, it: AVal, node, env, frame) -> AVal:
        outs = []
        for cq in it.inst_classes():
            for c in self._runtime_classes(it, cq)[:1]:
                f = c.lookup_method("__iter__")
                if f is not None:
                    s = self.invoke(f, [it], {}, None, None, node, env, frame)
                    if s is not None:
                        outs.append(elem_of(s.ret))
        rest = it.types - {t for t in it.types if t.startswith("inst:")}
        if rest:
            r = replace(it, types=frozenset(rest))
            if rest & {"dict"}:
                outs.append(key_of(r))
                if rest - {"dict"}:
                    outs.append(elem_of(r))
            else:
                outs.append(elem_of(r))
        return join_all(outs) if outs else BOTTOM

    def unpack_ops(self, v: AVal, n, node, env, frame):
        if v.is_json and v.taint == 2:
            self.raise_many(frame, ("TypeError", "ValueError"), node, env, True, reason="unpacking input node of unknown type")
        elif v.taint == 2 and v.types & {"list", "tuple", "str", "dict"} and v.tup is None:
            self.raise_exc(frame, "ValueError", node, env, True, reason="unpacking input sequence of unknown length")
        if not v.is_bottom and not v.is_json and v.types & {"none"}:
            # a library value that may be None / a number on some path (e.g. a not-found marker) is unpacked
            deep = max([v.taint] + [x.taint for x in (v.tup or ())] + ([v.elem.taint] if v.elem is not None else []))
            self.raise_exc(frame, "TypeError", node, env, deep > 0 or bool(env.get(PC)), reason="unpacking a value that may be None (e.g. a not-found marker)")

    # -- truth / narrowing ----------------------------------------------------------------------------
    def truth(self, v: AVal):
        if v.is_bottom:
            return None
        if v.const is not None:
            if v.const[0] == "c":
                return bool(v.const[1])
            if v.const[0] in ("enum", "type", "meth", "lambda", "bmeth", "mod"):
                return True
        if v.cset():
            ts = {bool(c[1]) if c[0] == "c" else True for c in v.cset()}
            if len(ts) == 1:
                return ts.pop()
            return None
        if v.only("none"):
            return False
        res = set()
        for tag in v.types:
            if tag == "none":
                res.add(False)
            elif tag in ("json", "any", "bool", "int", "float"):
                res.add(None)
            elif tag in ("list", "tuple", "dict", "set", "str", "range", "bytes"):
                res.add(True if v.nonempty else None)
            elif tag.startswith("inst:"):
                c = self.prog.classes.get(tag[5:])
                ks = [c] if v.fields is not None else c.all_subclasses()
                if any(k.lookup_method("__len__") or k.lookup_method("__bool__") for k in ks):
                    res.add(None)
                else:
                    res.add(True)
            else:
                res.add(True)
        if res == {True}:
            return True
        if res == {False}:
            return False
        return None

    def type_tags(self, node, env, frame):
        """Tags matched by the second argument of isinstance (None when unknown)."""
        if isinstance(node, ast.Tuple):
            out = set()
            for e in node.elts:
                t = self.type_tags(e, env, frame)
                if t is None:
                    return None
                out |= t
            return out
        v = self.ev(node, env, frame)
        return self.type_tags_of_value(v)

    def type_tags_of_value(self, v: AVal):
        if v.tup is not None:
            out = set()
            for x in v.tup:
                t = self.type_tags_of_value(x)
                if t is None:
                    return None
                out |= t
            return out
        out = set()
        consts = v.cset() or ({v.const} if v.const else set())
        if v.only("type") and consts and all(c[0] == "type" for c in consts):
            for c in consts:
                if c[1] not in TYPE_TAGS:
                    out |= {"ext:" + c[1]}
                else:
                    out |= TYPE_TAGS[c[1]]
            return out
        cl = v.cls_classes()
        if cl and len(cl) == len(v.types):
            for cq in cl:
                for k in self.prog.classes[cq].all_subclasses():
                    out.add(f"inst:{k.qualname}")
            return out
        return None

    def narrow_value(self, v: AVal, tags, positive: bool) -> AVal:
        """isinstance narrowing of v by a tag set."""
        inst_tags = {t for t in tags if t.startswith("inst:")}
        plain = {t for t in tags if not t.startswith("inst:") and not t.startswith("ext:")}
        if positive:
            parts = []
            keep_inst = set()
            for t in v.types:
                if t.startswith("inst:"):
                    if t in inst_tags:
                        keep_inst.add(t)
                    elif v.fields is None:
                        c = self.prog.classes.get(t[5:])
                        subs = {f"inst:{k.qualname}" for k in c.all_subclasses()} if c else set()
                        common = subs & inst_tags
                        # narrow a generic instance to the most general matching subclasses
                        for cm in common:
                            kc = self.prog.classes[cm[5:]]
                            if not any(f"inst:{p.qualname}" in common for p in kc.mro[1:]):
                                keep_inst.add(cm)
            base = narrow_json(replace(v, types=frozenset(t for t in v.types if not t.startswith("inst:"))), plain) if (v.types - {t for t in v.types if t.startswith("inst:")}) else BOTTOM
            if "any" in v.types and inst_tags:
                keep_inst |= {t for t in inst_tags if not any(f"inst:{p.qualname}" in inst_tags for p in self.prog.classes[t[5:]].mro[1:])}
            if keep_inst:
                iv = replace(v, types=frozenset(keep_inst), elem=None if not v.inst_classes() else v.elem, key=None, tup=None, nonempty=False)
                return join(iv, base) if not base.is_bottom else iv
            if "ext:path" in tags and ("any" in v.types):
                return v
            return base
        # negative branch
        rem = set(plain)
        for t in v.types:
            if t.startswith("inst:") and v.fields is not None and t in inst_tags:
                rem.add(t)
            elif t.startswith("inst:") and v.fields is None:
                c = self.prog.classes.get(t[5:])
                if c and all(f"inst:{k.qualname}" in inst_tags for k in c.all_subclasses()):
                    rem.add(t)
        if v.is_json:
            # an input node stays an input node of the remaining JSON types: keep 'json', remember what
            # it is known not to be (`!str`: consulted by the rows that only apply to strings)
            others = v.types - {"json"}
            new_others = others - rem
            excl = frozenset("!" + t for t in rem if t in ("str",))
            return replace(v, types=frozenset({"json"}) | new_others | excl)
        if "any" in v.types and "str" in rem:
            return replace(remove_tags(v, rem - {"any"}), types=(v.types - rem) | {"!str"})
        return remove_tags(v, rem)

    def narrow(self, test, env, branch: bool, frame):
        """Environment refined by `test` being `branch`; None when infeasible."""
        if isinstance(test, ast.UnaryOp) and isinstance(test.op, ast.Not):
            return self.narrow(test.operand, env, not branch, frame)
        if isinstance(test, ast.BoolOp):
            is_and = isinstance(test.op, ast.And)
            if is_and == branch:
                cur = env
                for sub in test.values:
                    cur = self.narrow(sub, cur, branch, frame)
                    if cur is None:
                        return None
                return cur
            # disjunction of the refinements: join feasible ones
            outs = None
            cur = env
            feasible = False
            for sub in test.values:
                e = self.narrow(sub, cur, branch, frame)
                if e is not None:
                    feasible = True
                    outs = _ej(outs, e)
                nxt = self.narrow(sub, cur, not branch, frame)
                if nxt is None:
                    break
                cur = nxt
            return outs if feasible else None
        if isinstance(test, ast.Attribute) and isinstance(test.value, ast.Name) and test.value.id in env:
            with _Quiet(self):
                tv = self.ev(test, env, frame)
            t = self.truth(tv) if not tv.is_bottom else None
            if t is None and is_fresh_empty(tv):
                t = False
            if t is not None and t != branch:
                return None
            if branch:
                e = dict(env)
                e["$attrfacts"] = (e.get("$attrfacts") or frozenset()) | {(test.value.id, test.attr)}
                return e
            return env
        if isinstance(test, ast.Name) and env.get("$cobound") and branch:
            for grp in env["$cobound"]:
                if test.id in grp:
                    # a flag bound together with a value from one call (`value, found = locate(..)`) holds:
                    # assume it is the found-flag, i.e. the value / its elements are not the None marker
                    # (an assumption, recorded in the evidence of the rules that use the interpreter)
                    env = dict(env)
                    for other in grp - {test.id}:
                        ov = env.get(other)
                        if ov is None or ov.is_bottom:
                            continue
                        if ov.elem is not None and "none" in ov.elem.types and len(ov.elem.types) > 1:
                            env[other] = replace(ov, elem=remove_tags(ov.elem, {"none"}))
                        elif "none" in ov.types and len(ov.types) > 1:
                            env[other] = remove_tags(ov, {"none"})
        if isinstance(test, ast.Name):
            v = env.get(test.id)
            g = (env.get("$guards") or {}).get(test.id)
            if g is not None:
                return self.narrow(g[0], env, branch, frame)
            if v is None:
                return env
            t = self.truth(v)
            if t is not None and t != branch:
                return None
            nv = self._truthy_part(v) if branch else self._falsy_narrow(v)
            if nv.is_bottom:
                return None
            e = dict(env); e[test.id] = nv
            return e
        if isinstance(test, ast.Call) and isinstance(test.func, ast.Name) and test.func.id == "isinstance" and len(test.args) == 2 and test.func.id not in env:
            tgt = test.args[0]
            quiet = _Quiet(self)
            with quiet:
                tags = self.type_tags(test.args[1], env, frame)
            if tags is None or not isinstance(tgt, ast.Name) or tgt.id not in env:
                if branch and isinstance(tgt, ast.Call) and isinstance(tgt.func, ast.Attribute) and tgt.func.attr == "get" and isinstance(tgt.func.value, ast.Name) and len(tgt.args) == 1 and isinstance(tgt.args[0], ast.Constant):
                    e = dict(env)
                    e["$keys"] = (e.get("$keys") or frozenset()) | {(tgt.func.value.id, tgt.args[0].value)}
                    return e
                return env
            nv = self.narrow_value(env[tgt.id], tags, branch)
            if nv.is_bottom:
                return None
            e = dict(env); e[tgt.id] = nv
            return e
        if isinstance(test, ast.Call) and isinstance(test.func, ast.Name) and test.func.id == "isinstance" and len(test.args) == 2 and branch:
            a = test.args[0]
            # isinstance(X.get("k"), T) holds (T not NoneType): the key is present
            if isinstance(a, ast.Call) and isinstance(a.func, ast.Attribute) and a.func.attr == "get" and isinstance(a.func.value, ast.Name) and len(a.args) == 1 and isinstance(a.args[0], ast.Constant):
                e = dict(env)
                e["$keys"] = (e.get("$keys") or frozenset()) | {(a.func.value.id, a.args[0].value)}
                return e
        if isinstance(test, ast.Compare) and len(test.ops) == 1:
            op = test.ops[0]
            l, r = test.left, test.comparators[0]
            if isinstance(op, (ast.Is, ast.IsNot, ast.Eq, ast.NotEq)):
                positive = isinstance(op, (ast.Is, ast.Eq)) == branch
                for x, y in ((l, r), (r, l)):
                    if isinstance(x, ast.Name) and x.id in env and isinstance(y, ast.Constant):
                        v = env[x.id]
                        if y.value is None:
                            if positive:
                                if not (v.types & {"none", "json", "any"}):
                                    return None
                                nv = replace(NONE, org=frozenset(), taint=min(v.taint, 1))
                            else:
                                if v.only("none"):
                                    return None
                                nv = remove_tags(v, {"none"})
                            e = dict(env); e[x.id] = nv
                            return e
                        if positive and isinstance(y.value, (str, int, bool)) and isinstance(op, (ast.Eq, ast.NotEq)):
                            if v.has_const and v.const_value() != y.value:
                                return None
                            if v.cset() and ("c", y.value) not in v.cset():
                                return None
                            if v.types & {"str", "json", "any"} and isinstance(y.value, str):
                                e = dict(env); e[x.id] = replace(const(y.value), taint=v.taint, org=v.org)
                                return e
                        if not positive and v.has_const and v.const_value() == y.value and type(v.const_value()) == type(y.value):
                            return None
                return env
            if isinstance(op, (ast.In, ast.NotIn)) and isinstance(l, ast.Subscript) and isinstance(l.value, ast.Name) and l.value.id in env \
                    and isinstance(l.slice, ast.Constant) and l.slice.value == 0 and isinstance(r, (ast.List, ast.Tuple)):
                # the only element of a one-element list (see the `x = [x]` guard rewriting in assign)
                positive = isinstance(op, ast.In) == branch
                v = env[l.value.id]
                if not positive and v.elem is not None and v.types <= {"list"}:
                    consts = [e_.value for e_ in r.elts if isinstance(e_, ast.Constant)]
                    ne = v.elem
                    if None in consts:
                        ne = remove_tags(ne, {"none"})
                        if ne.is_bottom:
                            return None
                    e = dict(env); e[l.value.id] = replace(v, elem=ne)
                    return e
                return env
            if isinstance(op, (ast.In, ast.NotIn)) and isinstance(l, ast.Name) and l.id in env and isinstance(r, (ast.List, ast.Tuple)):
                positive = isinstance(op, ast.In) == branch
                v = env[l.id]
                consts = [e_.value for e_ in r.elts if isinstance(e_, ast.Constant)]
                has_empty = any(isinstance(e_, (ast.List, ast.Dict, ast.Tuple)) and not getattr(e_, "elts", getattr(e_, "keys", [])) for e_ in r.elts)
                if not positive:
                    nv = v
                    if None in consts:
                        nv = remove_tags(nv, {"none"})
                        if nv.is_bottom:
                            return None
                    if has_empty and nv.types & {"list", "tuple", "dict"} and not (nv.types & {"json", "any"}):
                        nv = replace(nv, nonempty=True)
                    e = dict(env); e[l.id] = nv
                    return e
                if positive and consts and len(consts) == len(r.elts) and all(isinstance(c, str) for c in consts):
                    if v.has_const and v.const_value() not in consts:
                        return None
                return env
            if isinstance(op, (ast.In, ast.NotIn)) and isinstance(r, ast.Name) and isinstance(l, (ast.Constant, ast.Name, ast.Subscript, ast.Attribute)):
                positive = isinstance(op, ast.In) == branch
                if positive:
                    e = dict(env)
                    e["$mem"] = (e.get("$mem") or frozenset()) | {(norm(l), r.id)}
                    if isinstance(l, ast.Constant) and isinstance(l.value, (str, int)):
                        e["$keys"] = (e.get("$keys") or frozenset()) | {(r.id, l.value)}
                    return e
                return env
        if isinstance(test, ast.Call) and isinstance(test.func, ast.Name) and test.func.id == "hasattr":
            return env
        return env

    def _falsy_narrow(self, v: AVal) -> AVal:
        if v.has_const:
            return v
        if v.types and v.types <= {"list", "tuple", "dict", "set"}:
            return replace(v, nonempty=False, elem=None, tup=None, key=None)
        return replace(v, nonempty=False)


class _Quiet:
    """Evaluate without recording raise side effects (used when re-evaluating type expressions)."""

    def __init__(self, interp):
        self.interp = interp

    def __enter__(self):
        self._saved = self.interp.raise_exc
        self.interp.raise_exc = lambda *a, **k: None
        return self

    def __exit__(self, *a):
        del self.interp.raise_exc
        return False


FORMAT_RAISES = ("ValueError", "OverflowError", "KeyError", "MemoryError")


def _key_taint(k: AVal) -> int:
    """Taint of a subscript key, looking into tuple keys (`table[(a, b)]`)."""
    t = k.taint
    if k.tup is not None:
        for x in k.tup:
            t = max(t, min(x.taint, 1) if x.taint < 2 else 1)
    return t


def _ej(a, b):
    from .absint import env_join
    return env_join(a, b)


def _with_org(v: AVal, org) -> AVal:
    if v.is_bottom:
        return v
    return replace(
        v,
        org=frozenset(org),
        elem=_with_org(v.elem, org) if v.elem is not None else None,
        key=_with_org(v.key, org) if v.key is not None and not v.key.only("str") else v.key,
        tup=tuple(_with_org(x, org) for x in v.tup) if v.tup is not None else None,
    )
