"""Models of the builtin / standard-library callables the repository uses."""

from __future__ import annotations

import ast
from dataclasses import replace

from .aval import (ANY, AVal, BOOL, BOTTOM, FLOAT, INT, NONE, STR, TYPE, clip, const, deeper, elem_of,
                   fresh, join, join_all, key_of, mk)
from .absint import LT, PC
from .absint_expr import taint1


def _t(*vals):
    return 1 if any(v is not None and v.taint for v in vals) else 0


class BuiltinMixin:
    def _iterate(self, v, node, env, frame):
        self.iter_ops(v, node, env, frame)
        return self.iter_elem(v, node, env, frame)

    def _need(self, v, node, env, frame, excs, reason):
        if v is not None and v.is_json and v.taint == 2:
            self.raise_many(frame, excs, node, env, True, reason=reason)
            return True
        return False

    # -- type constructors -------------------------------------------------------------------------
    def bf_list(self, pos, kw, star, node, env, frame, tag="list"):
        if not pos:
            return mk(tag)
        v = pos[0]
        el = self._iterate(v, node, env, frame)
        tup = v.tup if (v.tup is not None and tag in ("list", "tuple")) else None
        if tag == "set":
            self.hash_ops(el, node, env, frame)
        if tup is not None:
            return mk(tag, tup=tup, nonempty=v.nonempty or bool(tup), taint=v.taint and 1)
        return mk(tag, elem=el if not el.is_bottom else None, nonempty=v.nonempty, taint=v.taint and 1)

    def bf_tuple(self, pos, kw, star, node, env, frame):
        return self.bf_list(pos, kw, star, node, env, frame, tag="tuple")

    def bf_set(self, pos, kw, star, node, env, frame):
        return self.bf_list(pos, kw, star, node, env, frame, tag="set")

    bf_frozenset = bf_set

    def bf_sorted(self, pos, kw, star, node, env, frame):
        v = self.bf_list(pos, kw, star, node, env, frame)
        el = elem_of(v) if (v.elem is not None or v.tup) else BOTTOM
        key = kw.get("key")
        if key is not None and not el.is_bottom:
            kv = self.call_value(key, [el], {}, None, None, node, env, frame)
            if self._unorderable(kv):
                self.raise_exc(frame, "TypeError", node, env, True, reason="ordering by a key made of input nodes of unknown type")
        elif not el.is_bottom and self._unorderable(el):
            self.raise_exc(frame, "TypeError", node, env, True, reason="ordering input nodes of unknown type")
        if "reverse" in kw:
            pass
        return replace(v, tup=None, elem=el if not el.is_bottom else None)

    def _unorderable(self, v, depth=3):
        """v (or a component compared lexicographically) is an input node of unknown type."""
        if v is None or v.is_bottom:
            return False
        if v.is_json and v.taint == 2:
            return True
        if depth > 0 and v.types & {"tuple", "list"}:
            for s_ in v.subvalues():
                if self._unorderable(s_, depth - 1):
                    return True
        return False

    def bf_reversed(self, pos, kw, star, node, env, frame):
        v = self.bf_list(pos, kw, star, node, env, frame)
        return replace(v, types=frozenset({"iter"}), tup=None, elem=elem_of(v) if (v.elem is not None or v.tup) else None)

    def bf_iter(self, pos, kw, star, node, env, frame):
        if not pos:
            return mk("iter")
        v = pos[0]
        el = self._iterate(v, node, env, frame)
        return mk("iter", elem=el if not el.is_bottom else None, nonempty=v.nonempty, taint=v.taint, org=frozenset())

    def bf_next(self, pos, kw, star, node, env, frame):
        if not pos:
            return ANY
        v = pos[0]
        if self._need(v, node, env, frame, ("TypeError", "StopIteration"), "next() of input node"):
            return elem_of(v)
        el = elem_of(v)
        if len(pos) > 1:
            return join(el, pos[1])
        if not v.nonempty:
            self.raise_exc(frame, "StopIteration", node, env, v.taint == 2, reason="next() of a possibly exhausted iterator without default")
        return el

    def bf_dict(self, pos, kw, star, node, env, frame):
        if not pos:
            if kw:
                return mk("dict", key=STR, elem=join_all(kw.values()), nonempty=True)
            return mk("dict")
        v = pos[0]
        if self._need(v, node, env, frame, ("TypeError", "ValueError"), "dict() of input node"):
            pass
        if v.types & {"dict"}:
            from .aval import shallow
            return replace(shallow(v), types=frozenset({"dict"}))
        el = self._iterate(v, node, env, frame) if not v.is_json else elem_of(v)
        if el.tup is not None and len(el.tup) == 2:
            return mk("dict", key=el.tup[0], elem=el.tup[1], nonempty=v.nonempty, taint=v.taint and 1)
        return mk("dict", key=ANY, elem=elem_of(el) if not el.is_bottom else None, nonempty=v.nonempty, taint=v.taint and 1)

    def bf_str(self, pos, kw, star, node, env, frame):
        if pos and pos[0].has_const and isinstance(pos[0].const_value(), (str, int)):
            return const(str(pos[0].const_value()))
        if pos and pos[0].only("str"):
            return replace(pos[0], org=frozenset())
        return mk("str", taint=_t(*pos))

    bf_repr = bf_str
    bf_format = bf_str

    def bf_int(self, pos, kw, star, node, env, frame, tag="int"):
        if pos:
            v = pos[0]
            if v.is_json and v.taint == 2:
                self.raise_many(frame, ("TypeError", "ValueError"), node, env, True, reason=f"{tag}() of input node of unknown type")
            elif v.taint == 2 and v.types & {"str"}:
                self.raise_exc(frame, "ValueError", node, env, True, reason=f"{tag}() of input string")
                if v.types - {"str", "int", "float", "bool"}:
                    self.raise_exc(frame, "TypeError", node, env, True, reason=f"{tag}() of input value")
            elif v.taint == 2 and v.types & {"none", "list", "dict"}:
                self.raise_exc(frame, "TypeError", node, env, True, reason=f"{tag}() of input value")
            elif v.types & {"str"} and not v.has_const:
                self.raise_exc(frame, "ValueError", node, env, bool(v.taint), reason=f"{tag}() of a string")
            elif tag == "int" and v.taint and v.types & {"float"}:
                # a float derived from the input may be inf / nan (e.g. float("inf"), float("1e999"))
                self.raise_many(frame, ("OverflowError", "ValueError"), node, env, True, reason="int() of a float derived from the input (inf / nan)")
        return AVal(types=frozenset({tag}), taint=_t(*pos))

    def bf_float(self, pos, kw, star, node, env, frame):
        return self.bf_int(pos, kw, star, node, env, frame, tag="float")

    def bf_bool(self, pos, kw, star, node, env, frame):
        if pos:
            t = self.truth(pos[0])
            if t is not None:
                return const(t)
        return replace(BOOL, taint=_t(*pos))

    def bf_type(self, pos, kw, star, node, env, frame):
        if len(pos) != 1:
            return TYPE
        v = pos[0]
        ic = v.inst_classes()
        if ic and len(ic) == len(v.types):
            if v.fields is not None or len(ic) == 1:
                if v.fields is not None:
                    return mk(f"cls:{ic[0]}")
                return join_all([mk(f"cls:{k.qualname}") for k in self.prog.classes[ic[0]].all_subclasses()]) if len(self.prog.classes[ic[0]].all_subclasses()) <= 12 else TYPE
        if len(v.types) == 1 and not v.is_json:
            tag = next(iter(v.types))
            if tag in ("int", "float", "str", "list", "dict", "tuple", "set", "bool"):
                return mk("type", const=("type", tag), taint=v.taint and 1)
        return replace(TYPE, taint=v.taint and 1)

    def bf_object(self, pos, kw, star, node, env, frame):
        return ANY

    # -- numeric / aggregate ------------------------------------------------------------------------
    def bf_len(self, pos, kw, star, node, env, frame):
        if not pos:
            return INT
        v = pos[0]
        if self._need(v, node, env, frame, ("TypeError",), "len() of input node of unknown type"):
            return replace(INT, taint=1)
        if v.taint == 2 and v.types & {"none", "int", "float", "bool"}:
            self.raise_exc(frame, "TypeError", node, env, True, reason="len() of input scalar")
        for cq in v.inst_classes():
            for c in self._runtime_classes(v, cq)[:1]:
                f = c.lookup_method("__len__")
                if f is not None:
                    self.invoke(f, [v], {}, None, None, node, env, frame)
        if v.tup is not None and not v.inst_classes() and v.only("tuple"):
            return const(len(v.tup))
        # for ints `nonempty` means "known positive"
        return replace(INT, taint=v.taint and 1, nonempty=v.nonempty and not v.inst_classes())

    def bf_abs(self, pos, kw, star, node, env, frame):
        if pos:
            self._need(pos[0], node, env, frame, ("TypeError",), "abs() of input node of unknown type")
            if pos[0].has("any") and pos[0].taint:
                pass
        return AVal(types=frozenset({"int", "float"}), taint=_t(*pos))

    def bf_round(self, pos, kw, star, node, env, frame):
        return self.bf_abs(pos, kw, star, node, env, frame)

    def bf_range(self, pos, kw, star, node, env, frame):
        for v in pos:
            self._need(v, node, env, frame, ("TypeError",), "range() with input node of unknown type")
            if v.taint == 2 and v.types & {"str", "none", "list", "dict", "float"} and not v.is_json:
                self.raise_exc(frame, "TypeError", node, env, True, reason="range() with non-integer input")
        ne = False
        if len(pos) == 1 and pos[0].only("int") and ((pos[0].has_const and pos[0].const_value() > 0) or pos[0].nonempty):
            ne = True
        return mk("range", taint=_t(*pos), nonempty=ne)

    def _agg(self, pos, kw, node, env, frame, what, result):
        if pos:
            v = pos[0]
            el = self._iterate(v, node, env, frame)
            if what in ("sum", "min", "max") and not el.is_bottom and el.is_json and el.taint == 2:
                self.raise_exc(frame, "TypeError", node, env, True, reason=f"{what}() over input nodes of unknown type")
            if what in ("min", "max") and v.taint and not v.nonempty:
                self.raise_exc(frame, "ValueError", node, env, v.taint == 2, reason=f"{what}() of a possibly empty sequence")
            key = kw.get("key")
            if key is not None and not el.is_bottom:
                self.call_value(key, [el], {}, None, None, node, env, frame)
            if what in ("min", "max"):
                return el if not el.is_bottom else ANY
            if what in ("any", "all") and not el.is_bottom:
                tr = self.truth(el)
                if what == "all" and tr is True:
                    return const(True)
                if what == "any" and tr is False:
                    return const(False)
            return replace(result, taint=max(v.taint and 1, el.taint and 1 if not el.is_bottom else 0))
        return result

    def bf_sum(self, pos, kw, star, node, env, frame):
        return self._agg(pos, kw, node, env, frame, "sum", AVal(types=frozenset({"int", "float"})))

    def bf_any(self, pos, kw, star, node, env, frame):
        return self._agg(pos, kw, node, env, frame, "any", BOOL)

    def bf_all(self, pos, kw, star, node, env, frame):
        return self._agg(pos, kw, node, env, frame, "all", BOOL)

    def bf_min(self, pos, kw, star, node, env, frame):
        return self._agg(pos, kw, node, env, frame, "min", ANY)

    def bf_max(self, pos, kw, star, node, env, frame):
        return self._agg(pos, kw, node, env, frame, "max", ANY)

    def bf_zip(self, pos, kw, star, node, env, frame):
        if star is not None and not pos:
            outer = star
            inner = elem_of(outer)
            if not inner.is_bottom:
                self.iter_ops(inner, node, env, frame)
            if inner.tup is not None:
                cols = tuple(mk("tuple", elem=p, taint=outer.taint and 1, nonempty=outer.nonempty) for p in inner.tup)
                return mk("iter", tup=cols, nonempty=outer.nonempty and bool(cols), taint=outer.taint and 1)
            col = mk("tuple", elem=elem_of(inner) if not inner.is_bottom else None, taint=outer.taint and 1, nonempty=outer.nonempty)
            return mk("iter", elem=col, taint=outer.taint and 1)
        els = []
        for v in pos:
            els.append(self._iterate(v, node, env, frame))
        if star is not None:
            els.append(elem_of(elem_of(star)))
            return mk("iter", elem=mk("tuple", elem=join_all(els)), taint=_t(*pos, star))
        if any(e.is_bottom for e in els):
            return mk("iter")     # zip with an empty operand yields nothing
        return mk("iter", elem=mk("tuple", tup=tuple(els)),
                  nonempty=bool(pos) and all(v.nonempty for v in pos), taint=_t(*pos))

    def bf_enumerate(self, pos, kw, star, node, env, frame):
        if not pos:
            return mk("iter")
        v = pos[0]
        el = self._iterate(v, node, env, frame)
        if el.is_bottom:
            return mk("iter")     # enumerate of an empty container yields nothing
        return mk("iter", elem=mk("tuple", tup=(INT, el)), nonempty=v.nonempty, taint=v.taint and 1)

    def bf_map(self, pos, kw, star, node, env, frame):
        if len(pos) >= 2:
            el = self._iterate(pos[1], node, env, frame)
            r = self.call_value(pos[0], [el], {}, None, None, node, env, frame)
            return mk("iter", elem=r if not r.is_bottom else None, taint=pos[1].taint and 1, nonempty=pos[1].nonempty)
        return mk("iter")

    def bf_filter(self, pos, kw, star, node, env, frame):
        if len(pos) >= 2:
            el = self._iterate(pos[1], node, env, frame)
            if not pos[0].only("none"):
                self.call_value(pos[0], [el], {}, None, None, node, env, frame)
            return mk("iter", elem=el if not el.is_bottom else None, taint=pos[1].taint and 1)
        return mk("iter")

    # -- misc ---------------------------------------------------------------------------------------------
    def bf_print(self, pos, kw, star, node, env, frame):
        return NONE

    def bf_id(self, pos, kw, star, node, env, frame):
        return INT

    def bf_hash(self, pos, kw, star, node, env, frame):
        if pos:
            self.hash_ops(pos[0], node, env, frame)
        return INT

    def bf_callable(self, pos, kw, star, node, env, frame):
        return BOOL

    def bf_vars(self, pos, kw, star, node, env, frame):
        return mk("dict", key=STR, org=deeper(pos[0].org) if pos else frozenset())

    def bf_issubclass(self, pos, kw, star, node, env, frame):
        return BOOL

    def bf_slice(self, pos, kw, star, node, env, frame):
        return mk("slice")

    def bf_open(self, pos, kw, star, node, env, frame):
        return ANY

    def bf_copy_copy(self, pos, kw, star, node, env, frame):
        if not pos:
            return ANY
        v = pos[0]
        if v.inst_classes() and v.fields is None:
            return self._shallow_inst(v)
        # shallow: new outer object, same elements / field values
        from .aval import shallow
        return shallow(v)

    def _shallow_inst(self, v):
        # generic instance: the copy is a fresh object whose (unknown) fields alias the original's
        return replace(v, org=frozenset(), fields=(("$shallow_of", AVal(types=frozenset({"any"}), org=deeper(v.org))),))

    def bf_copy_deepcopy(self, pos, kw, star, node, env, frame):
        if not pos:
            return ANY
        v = pos[0]
        root = self.config.get("deepcopy_root")
        out = fresh(v)
        if root:
            out = replace(out, org=frozenset({(root, 0)}))
        return out

    def bf_html_escape(self, pos, kw, star, node, env, frame):
        if pos and pos[0].taint == 2 and not pos[0].only("str"):
            self.raise_exc(frame, "AttributeError", node, env, True, reason="html.escape of a non-str input node")
        return mk("str", taint=_t(*pos))

    def bf_re_sub(self, pos, kw, star, node, env, frame):
        if len(pos) > 2 and pos[2].taint == 2 and not pos[2].only("str"):
            self.raise_exc(frame, "TypeError", node, env, True, reason="re.sub on a non-str input node")
        return mk("str", taint=_t(*pos))

    def bf_warnings_warn(self, pos, kw, star, node, env, frame):
        return NONE

    def bf_inspect_signature(self, pos, kw, star, node, env, frame):
        return ANY

    def _operator(self, opcls, pos, node, env, frame):
        if len(pos) == 2:
            return self.binop_result(opcls(), pos[0], pos[1], node, env, frame)
        return ANY

    def bf_operator_and_(self, pos, kw, star, node, env, frame):
        return self._operator(ast.BitAnd, pos, node, env, frame)

    def bf_operator_or_(self, pos, kw, star, node, env, frame):
        return self._operator(ast.BitOr, pos, node, env, frame)

    def bf_operator_xor(self, pos, kw, star, node, env, frame):
        return self._operator(ast.BitXor, pos, node, env, frame)

    def bf_operator_truediv(self, pos, kw, star, node, env, frame):
        return self._operator(ast.Div, pos, node, env, frame)

    def bf_pathlib_Path(self, pos, kw, star, node, env, frame):
        return ANY

    def bf_path(self, pos, kw, star, node, env, frame):
        return ANY

    def bf_staticmethod(self, pos, kw, star, node, env, frame):
        return pos[0] if pos else ANY

    bf_classmethod = bf_staticmethod
    bf_property = bf_staticmethod
