"""E0 - program model: modules, imports, classes (C3 MRO), functions, fields, tables.

Pure `ast`; nothing from the analysed repository is imported or executed.
"""

from __future__ import annotations

import ast
import glob
import hashlib
import os
from dataclasses import dataclass, field
from typing import Dict, List, Optional, Tuple

from . import AnalysisError, REPO

PKG = "valida"


@dataclass
class Param:
    name: str
    kind: str  # POSITIONAL_OR_KEYWORD | VAR_POSITIONAL | VAR_KEYWORD | KEYWORD_ONLY | POSITIONAL_ONLY
    default: Optional[ast.AST] = None


class FuncInfo:
    def __init__(self, module, cls, node, kind):
        self.module = module
        self.cls = cls
        self.node = node
        self.name = node.name
        self.kind = kind
        self.qualname = (
            f"{module.name}.{cls.name}.{node.name}" if cls else f"{module.name}.{node.name}"
        )
        self.params = _params_of(node)

    @property
    def file(self):
        return self.module.relpath

    @property
    def is_generator(self):
        for n in ast.walk(self.node):
            if isinstance(n, (ast.Yield, ast.YieldFrom)):
                return True
        return False

    def param_names(self):
        return [p.name for p in self.params]

    def __repr__(self):
        return f"<func {self.qualname}>"


def _params_of(node) -> List[Param]:
    a = node.args
    out = []
    pos = list(a.posonlyargs) + list(a.args)
    defaults = [None] * (len(pos) - len(a.defaults)) + list(a.defaults)
    for i, (p, d) in enumerate(zip(pos, defaults)):
        kind = "POSITIONAL_ONLY" if i < len(a.posonlyargs) else "POSITIONAL_OR_KEYWORD"
        out.append(Param(p.arg, kind, d))
    if a.vararg:
        out.append(Param(a.vararg.arg, "VAR_POSITIONAL"))
    for p, d in zip(a.kwonlyargs, a.kw_defaults):
        out.append(Param(p.arg, "KEYWORD_ONLY", d))
    if a.kwarg:
        out.append(Param(a.kwarg.arg, "VAR_KEYWORD"))
    return out


class ClassInfo:
    def __init__(self, module, node):
        self.module = module
        self.node = node
        self.name = node.name
        self.qualname = f"{module.name}.{node.name}"
        self.base_exprs = node.bases
        self.bases: List[object] = []  # ClassInfo or str (external)
        self.mro: List["ClassInfo"] = []
        self.ext_bases: List[str] = []
        self.methods: Dict[str, FuncInfo] = {}
        self.setters: Dict[str, FuncInfo] = {}
        self.attrs: Dict[str, ast.AST] = {}
        self.own_fields: Dict[str, List[Tuple[FuncInfo, ast.AST]]] = {}
        self.subclasses: List["ClassInfo"] = []

    # -- lookups through the MRO ------------------------------------------------
    def lookup(self, name):
        """(owner, FuncInfo | ast expr) for the first class in the MRO defining name."""
        for c in self.mro:
            if name in c.methods:
                return c, c.methods[name]
            if name in c.attrs:
                v = c.attrs[name]
                # alias of a sibling method: `eq = equal_to`
                if isinstance(v, ast.Name) and v.id in c.methods:
                    return c, c.methods[v.id]
                return c, v
        return None, None

    def lookup_method(self, name) -> Optional[FuncInfo]:
        _, v = self.lookup(name)
        return v if isinstance(v, FuncInfo) else None

    def lookup_setter(self, name) -> Optional[FuncInfo]:
        for c in self.mro:
            if name in c.setters:
                return c.setters[name]
        return None

    def all_subclasses(self, include_self=True):
        out = [self] if include_self else []
        seen = {self.qualname}
        stack = list(self.subclasses)
        while stack:
            c = stack.pop()
            if c.qualname in seen:
                continue
            seen.add(c.qualname)
            out.append(c)
            stack.extend(c.subclasses)
        return out

    def is_subclass_of(self, other: "ClassInfo"):
        return other in self.mro

    def all_fields(self):
        out = {}
        for c in reversed(self.mro):
            for k, v in c.own_fields.items():
                out.setdefault(k, []).extend(v)
        return out

    def is_enum(self):
        return any(b in ("enum.Enum", "Enum") for b in self.ext_bases) or any(
            c.is_enum() for c in self.mro[1:]
        )

    def is_exception(self):
        return any(b in ("Exception", "BaseException") or b.endswith("Error") for b in self.ext_bases) or any(
            c.is_exception() for c in self.mro[1:]
        )

    def __repr__(self):
        return f"<class {self.qualname}>"


class _PlainAssign(ast.NodeTransformer):
    """`x: T = v` is analysed as `x = v` (annotations carry no behaviour); a bare `x: T` as `pass`."""

    def visit_AnnAssign(self, n):
        self.generic_visit(n)
        if n.value is None:
            return ast.copy_location(ast.Pass(), n)
        return ast.copy_location(ast.Assign(targets=[n.target], value=n.value, lineno=n.lineno), n)


class Module:
    def __init__(self, path, relpath):
        self.path = path
        self.relpath = relpath
        self.name = os.path.splitext(os.path.basename(path))[0]
        with open(path, "rb") as fh:
            raw = fh.read()
        self.sha256 = hashlib.sha256(raw).hexdigest()
        self.source = raw.decode("utf-8")
        self.tree = _PlainAssign().visit(ast.parse(self.source, filename=path))
        ast.fix_missing_locations(self.tree)
        for parent in ast.walk(self.tree):
            for child in ast.iter_child_nodes(parent):
                child._parent = parent  # type: ignore[attr-defined]
        self.imports: Dict[str, Tuple] = {}
        self.functions: Dict[str, FuncInfo] = {}
        self.classes: Dict[str, ClassInfo] = {}
        self.constants: Dict[str, ast.AST] = {}

    def __repr__(self):
        return f"<module {self.name}>"


@dataclass
class External:
    name: str  # dotted, e.g. "copy.deepcopy", "operator.and_", "len"

    def __hash__(self):
        return hash(self.name)


BUILTIN_NAMES = {
    "len", "type", "isinstance", "issubclass", "list", "dict", "tuple", "set", "frozenset", "str", "int",
    "float", "bool", "range", "zip", "enumerate", "sorted", "reversed", "iter", "next", "any",
    "all", "sum", "min", "max", "abs", "repr", "print", "getattr", "setattr", "hasattr",
    "super", "object", "slice", "id", "hash", "callable", "map", "filter", "open", "vars", "format",
    "TypeError", "ValueError", "KeyError", "IndexError", "AttributeError", "RuntimeError",
    "NotImplementedError", "StopIteration", "Exception", "ZeroDivisionError", "ArithmeticError",
    "LookupError", "RecursionError", "OverflowError", "UnboundLocalError", "NameError", "BaseException",
    "staticmethod", "classmethod", "property", "bytes", "round", "divmod", "ord", "chr", "delattr",
}


class Program:
    def __init__(self, repo=None):
        self.repo = repo or REPO
        pkgdir = os.path.join(self.repo, PKG)
        files = sorted(glob.glob(os.path.join(pkgdir, "*.py")))
        if not files:
            raise AnalysisError(f"no python sources under {pkgdir}")
        self.modules: Dict[str, Module] = {}
        for f in files:
            m = Module(f, os.path.relpath(f, self.repo))
            self.modules[m.name] = m
        for m in self.modules.values():
            self._index_module(m)
        for m in self.modules.values():
            for c in m.classes.values():
                self._resolve_bases(c)
        for m in self.modules.values():
            for c in m.classes.values():
                c.mro = self._c3(c)
        self.functions: Dict[str, FuncInfo] = {}
        self.classes: Dict[str, ClassInfo] = {}
        for m in self.modules.values():
            for f in m.functions.values():
                self.functions[f.qualname] = f
            for c in m.classes.values():
                self.classes[c.qualname] = c
                for f in c.methods.values():
                    self.functions[f.qualname] = f
                for f in c.setters.values():
                    self.functions[f.qualname + ".setter"] = f
        self._collect_fields()

    # -- indexing -------------------------------------------------------------------
    def _index_module(self, m: Module):
        for st in m.tree.body:
            if isinstance(st, ast.Import):
                for a in st.names:
                    if a.asname:
                        m.imports[a.asname] = ("mod", a.name)
                    else:
                        m.imports[a.name.split(".")[0]] = ("pkgroot", a.name.split(".")[0])
            elif isinstance(st, ast.ImportFrom):
                for a in st.names:
                    m.imports[a.asname or a.name] = ("from", st.module or "", a.name)
            elif isinstance(st, (ast.FunctionDef, ast.AsyncFunctionDef)):
                m.functions[st.name] = FuncInfo(m, None, st, "function")
            elif isinstance(st, ast.ClassDef):
                c = ClassInfo(m, st)
                m.classes[st.name] = c
                for cst in st.body:
                    if isinstance(cst, (ast.FunctionDef, ast.AsyncFunctionDef)):
                        kind = "method"
                        is_setter = False
                        for d in cst.decorator_list:
                            ds = ast.unparse(d)
                            if ds == "classmethod":
                                kind = "classmethod"
                            elif ds == "staticmethod":
                                kind = "staticmethod"
                            elif ds == "property":
                                kind = "property"
                            elif ds.endswith(".setter"):
                                kind = "setter"
                                is_setter = True
                            elif ds.split(".")[-1] == "classproperty":
                                kind = "classproperty"
                        f = FuncInfo(m, c, cst, kind)
                        if is_setter:
                            c.setters[cst.name] = f
                        else:
                            c.methods[cst.name] = f
                    elif isinstance(cst, ast.Assign):
                        for t in cst.targets:
                            if isinstance(t, ast.Name):
                                c.attrs[t.id] = cst.value
                    elif isinstance(cst, ast.AnnAssign) and isinstance(cst.target, ast.Name) and cst.value:
                        c.attrs[cst.target.id] = cst.value
            elif isinstance(st, ast.Assign):
                for t in st.targets:
                    if isinstance(t, ast.Name):
                        m.constants[t.id] = st.value
            elif isinstance(st, ast.AnnAssign) and isinstance(st.target, ast.Name) and st.value is not None:
                m.constants[st.target.id] = st.value

    def _resolve_bases(self, c: ClassInfo):
        for b in c.base_exprs:
            ent = self.resolve_expr(c.module, b)
            if isinstance(ent, ClassInfo):
                c.bases.append(ent)
                ent.subclasses.append(c)
            else:
                name = ent.name if isinstance(ent, External) else ast.unparse(b)
                c.bases.append(name)
                c.ext_bases.append(name)

    def _c3(self, c: ClassInfo) -> List[ClassInfo]:
        def merge(seqs):
            res = []
            seqs = [list(s) for s in seqs if s]
            while seqs:
                for s in seqs:
                    cand = s[0]
                    if not any(cand in t[1:] for t in seqs):
                        break
                else:
                    raise AnalysisError(f"inconsistent MRO for {c.qualname}")
                res.append(cand)
                seqs = [[x for x in s if x is not cand] for s in seqs]
                seqs = [s for s in seqs if s]
            return res

        rbases = [b for b in c.bases if isinstance(b, ClassInfo)]
        return [c] + merge([self._c3(b) for b in rbases] + [rbases])

    def _collect_fields(self):
        for c in self.classes.values():
            fns = list(c.methods.values()) + list(c.setters.values())
            for f in fns:
                if f.kind in ("staticmethod", "classmethod", "classproperty") or not f.params:
                    continue
                selfname = f.params[0].name
                for n in ast.walk(f.node):
                    targets = []
                    if isinstance(n, ast.Assign):
                        targets = n.targets
                    elif isinstance(n, (ast.AugAssign, ast.AnnAssign)):
                        targets = [n.target]
                    for t in targets:
                        for tt in _flatten_targets(t):
                            if (
                                isinstance(tt, ast.Attribute)
                                and isinstance(tt.value, ast.Name)
                                and tt.value.id == selfname
                            ):
                                c.own_fields.setdefault(tt.attr, []).append((f, n))

    # -- name resolution ---------------------------------------------------------------
    def resolve_name(self, module: Module, name: str):
        if name in module.classes:
            return module.classes[name]
        if name in module.functions:
            return module.functions[name]
        if name in module.imports:
            imp = module.imports[name]
            if imp[0] == "mod":
                dotted = imp[1]
                if dotted.startswith(PKG + "."):
                    mn = dotted[len(PKG) + 1:]
                    if mn in self.modules:
                        return self.modules[mn]
                return External(dotted)
            if imp[0] == "pkgroot":
                if imp[1] == PKG:
                    return ("pkg",)
                return External(imp[1])
            if imp[0] == "from":
                src, nm = imp[1], imp[2]
                if src == PKG and nm in self.modules:
                    return self.modules[nm]
                if src.startswith(PKG + "."):
                    mn = src[len(PKG) + 1:]
                    if mn in self.modules:
                        return self.resolve_name(self.modules[mn], nm)
                return External(f"{src}.{nm}")
        if name in module.constants:
            return ("const", module, name)
        if name in BUILTIN_NAMES:
            return External(name)
        return None

    def resolve_expr(self, module: Module, expr):
        """Resolve a Name / dotted Attribute chain to a module-level entity, or None."""
        if isinstance(expr, ast.Name):
            return self.resolve_name(module, expr.id)
        if isinstance(expr, ast.Attribute):
            base = self.resolve_expr(module, expr.value)
            if base == ("pkg",):
                return self.modules.get(expr.attr)
            if isinstance(base, Module):
                return self.resolve_name(base, expr.attr)
            if isinstance(base, External):
                return External(base.name + "." + expr.attr)
            if isinstance(base, ClassInfo):
                _, v = base.lookup(expr.attr)
                if v is not None:
                    return ("classattr", base, expr.attr)
            return None
        return None

    # -- conveniences ------------------------------------------------------------------
    def func(self, qualname) -> FuncInfo:
        f = self.functions.get(qualname)
        if f is None:
            raise AnalysisError(f"anchor function {qualname} not found")
        return f

    def cls(self, qualname) -> ClassInfo:
        c = self.classes.get(qualname)
        if c is None:
            raise AnalysisError(f"anchor class {qualname} not found")
        return c

    def module(self, name) -> Module:
        m = self.modules.get(name)
        if m is None:
            raise AnalysisError(f"anchor module {name} not found")
        return m

    def flat(self, qualname) -> FuncInfo:
        """The function with its exactly-inlinable private helpers inlined (see flatten.py)."""
        from .flatten import flat
        return flat(self, self.func(qualname))

    def all_functions(self):
        return list(self.functions.values())

    def methods_named(self, name) -> List[FuncInfo]:
        out = []
        for c in self.classes.values():
            if name in c.methods:
                out.append(c.methods[name])
        return out

    def digests(self):
        return {m.relpath: m.sha256 for m in self.modules.values()}

    def const_table(self, module: Module, name: str) -> ast.AST:
        if name not in module.constants:
            raise AnalysisError(f"anchor table {module.name}.{name} not found")
        return module.constants[name]


def _flatten_targets(t):
    if isinstance(t, (ast.Tuple, ast.List)):
        for e in t.elts:
            yield from _flatten_targets(e)
    elif isinstance(t, ast.Starred):
        yield from _flatten_targets(t.value)
    else:
        yield t


def loc(func_or_module, node) -> str:
    mod = func_or_module.module if isinstance(func_or_module, (FuncInfo, ClassInfo)) else func_or_module
    return f"{mod.relpath}:{getattr(node, 'lineno', 0)}"


_NORM_CACHE = {}


def norm(node) -> str:
    """Normalised text of a statement/expression used in finding keys (never line numbers)."""
    k = id(node)
    hit = _NORM_CACHE.get(k)
    if hit is not None and hit[0] is node:
        return hit[1]
    s = _norm(node)
    _NORM_CACHE[k] = (node, s)
    return s


def _norm(node) -> str:
    try:
        s = ast.unparse(node)
    except Exception:  # pragma: no cover
        s = ast.dump(node)
    s = " ".join(s.split())
    return s if len(s) <= 160 else s[:157] + "..."


def head(node) -> str:
    """Normalised text of the head of a compound statement (without its body)."""
    if isinstance(node, ast.If):
        return "if " + norm(node.test)
    if isinstance(node, ast.For):
        return f"for {norm(node.target)} in {norm(node.iter)}"
    if isinstance(node, ast.While):
        return "while " + norm(node.test)
    if isinstance(node, ast.Try):
        return "try"
    if isinstance(node, ast.With):
        return "with " + ", ".join(norm(i) for i in node.items)
    return norm(node)
