"""Static analysis of hpcflow/valida: one check per property in /verif/properties.jsonl.

Nothing in this package imports or executes valida.  Every check parses the
source files under $VSTATIC_REPO (default /repo) on every run.
"""

import os

REPO = os.environ.get("VSTATIC_REPO", "/repo")
VERIF = os.path.dirname(os.path.dirname(os.path.abspath(__file__)))


class AnalysisError(Exception):
    """An anchor the analysis relies on is missing or the analyser cannot
    interpret a construct it must interpret.  Exit code 2, never a silent pass."""
