"""The abstract interpreter assembled from its mixins."""

from .absint import InterpBase, Summary, Event, PC, LT
from .absint_expr import ExprMixin
from .absint_call import CallMixin
from .absint_builtins import BuiltinMixin


class Interp(ExprMixin, CallMixin, BuiltinMixin, InterpBase):
    pass
