"""Thorough tier: (i) the property's rules on /repo (same as quick), (ii) self-validation of the
rules against the *current* tree: canonical breaking edits and neutral edits are derived from the
source with `ast`, written to a scratch copy under a fresh temporary directory (removed
afterwards), re-parsed (must compile) and the property's check must fire / stay silent.
The kill matrix is evidence; a surviving mutant is reported there, it is not a violation of
the property on /repo."""

from __future__ import annotations

import ast
import copy
import json
import os
import random
import shutil
import subprocess
import sys
import tempfile
import time
from concurrent.futures import ThreadPoolExecutor

from . import REPO, VERIF
from .engine import main_check

PY = sys.executable


# ------------------------------------------------------------------------------------------
# mutation operators: each yields (label, module file, new source, expected properties)
# ------------------------------------------------------------------------------------------
def _parse(repo, mod):
    with open(os.path.join(repo, "valida", mod)) as fh:
        src = fh.read()
    return src, ast.parse(src)


def _func(tree, qual):
    parts = qual.split(".")
    node = tree
    for p in parts:
        found = None
        for n in getattr(node, "body", []):
            if isinstance(n, (ast.FunctionDef, ast.ClassDef)) and n.name == p:
                found = n
        if found is None:
            return None
        node = found
    return node


def _emit(tree):
    ast.fix_missing_locations(tree)
    return ast.unparse(tree) + "\n"


# handler entries that are redundant on the repaired tree: dropping them changes no behaviour, so the
# variant must be *silent* (kept as a neutral variant: it guards against an over-eager R-RAISE)
REDUNDANT_HANDLER_ENTRIES = {
    ("Condition._filter", "ValueError"): "since F31 has_factor / factor_of refuse strings, so `%` is never printf formatting; no callable raises ValueError on a document value",
    ("Condition._filter", "OverflowError"): "added by F27 for '%c' formatting, which F31 made unreachable",
}


def gen_handler_mutants(repo):
    """Narrow / remove exception handlers at the containment sites."""
    sites = [("conditions.py", "Condition._filter", {"C01", "C07"}), ("datapath.py", "DataPath.get_data", {"C03", "C07"}), ("rules.py", "Rule.test", {"C07", "C15"})]
    for mod, qual, props in sites:
        src, tree = _parse(repo, mod)
        f = _func(tree, qual)
        if f is None:
            continue
        tries = [n for n in ast.walk(f) if isinstance(n, ast.Try)]
        for ti, t in enumerate(tries):
            for hi, h in enumerate(t.handlers):
                if isinstance(h.type, ast.Tuple):
                    for ei, e in enumerate(h.type.elts):
                        t2 = copy.deepcopy(tree)
                        f2 = _func(t2, qual)
                        tr = [n for n in ast.walk(f2) if isinstance(n, ast.Try)][ti]
                        hh = tr.handlers[hi]
                        hh.type = ast.Tuple(elts=[x for j, x in enumerate(hh.type.elts) if j != ei], ctx=ast.Load())
                        kind = "neutral" if (qual, ast.unparse(e)) in REDUNDANT_HANDLER_ENTRIES else "break"
                        yield (f"narrow-handler:{qual}:try{ti}:drop-{ast.unparse(e)}", mod, _emit(t2), props, kind)
                elif isinstance(h.type, ast.Name):
                    t2 = copy.deepcopy(tree)
                    f2 = _func(t2, qual)
                    tr = [n for n in ast.walk(f2) if isinstance(n, ast.Try)][ti]
                    tr.handlers[hi].type = ast.Name(id="KeyError" if h.type.id != "KeyError" else "OSError", ctx=ast.Load())
                    yield (f"retype-handler:{qual}:try{ti}:{h.type.id}", mod, _emit(t2), props, "break")


def gen_copy_mutants(repo):
    for mod, props in (("rules.py", {"C08", "C15"}), ("schema.py", {"C08", "C15"}), ("conditions.py", {"C16"}), ("datapath.py", {"C16"})):
        src, tree = _parse(repo, mod)
        calls = [n for n in ast.walk(tree) if isinstance(n, ast.Call) and ast.unparse(n.func) == "copy.deepcopy"]
        for ci, c in enumerate(calls):
            txt = ast.unparse(c)
            if mod in ("conditions.py",) and "spec_val" not in txt:
                continue
            if mod == "datapath.py" and "parts" not in txt:
                continue
            if mod == "rules.py" and not any(k in txt for k in ("get_original", "spec.get")):
                continue
            t2 = copy.deepcopy(tree)
            c2 = [n for n in ast.walk(t2) if isinstance(n, ast.Call) and ast.unparse(n.func) == "copy.deepcopy"][ci]
            c2.func = ast.Attribute(value=ast.Name(id="copy", ctx=ast.Load()), attr="copy", ctx=ast.Load())
            if mod in ("conditions.py", "datapath.py") or "'cast'" in txt:
                # flat structures / callees that copy again: a shallow copy is enough here, the edit is behaviour-preserving
                yield (f"deepcopy->copy(neutral):{mod}:{txt[:40]}", mod, _emit(t2), None, "neutral")
                continue
            p = props if "spec" not in txt else {"C16"}
            yield (f"deepcopy->copy:{mod}:{txt[:40]}", mod, _emit(t2), p, "break")


def gen_escape_mutants(repo):
    src, tree = _parse(repo, "schema.py")
    calls = [n for n in ast.walk(tree) if isinstance(n, ast.Call) and ast.unparse(n.func) == "html.escape"]
    for ci, c in enumerate(calls):
        t2 = copy.deepcopy(tree)

        class Rm(ast.NodeTransformer):
            k = -1

            def visit_Call(self, node):
                self.generic_visit(node)
                if ast.unparse(node.func) == "html.escape":
                    Rm.k += 1
                    if Rm.k == ci:
                        return node.args[0]
                return node
        Rm.k = -1
        t2 = Rm().visit(t2)
        yield (f"drop-escape:{ci}:{ast.unparse(c)[:40]}", "schema.py", _emit(t2), {"C20"}, "break")


def gen_tag_mutants(repo):
    src, tree = _parse(repo, "schema.py")
    f = _func(tree, "write_tree_html")
    stmts = [n for n in ast.walk(f) if isinstance(n, ast.AugAssign) and isinstance(n.value, ast.Constant) and isinstance(n.value.value, str) and n.value.value.startswith("</")]
    for si, s in enumerate(stmts):
        t2 = copy.deepcopy(tree)
        f2 = _func(t2, "write_tree_html")
        s2 = [n for n in ast.walk(f2) if isinstance(n, ast.AugAssign) and isinstance(n.value, ast.Constant) and isinstance(n.value.value, str) and n.value.value.startswith("</")][si]
        s2.value = ast.Constant(value="")
        yield (f"drop-closing-tag:{s.value.value}:{si}", "schema.py", _emit(t2), {"C20"}, "break")


def gen_eq_mutants(repo):
    for mod in ("conditions.py", "datapath.py", "rules.py", "schema.py"):
        src, tree = _parse(repo, mod)
        eqs = [n for n in ast.walk(tree) if isinstance(n, ast.FunctionDef) and n.name == "__eq__"]
        for qi, q in enumerate(eqs):
            ands = [n for n in ast.walk(q) if isinstance(n, ast.BoolOp) and isinstance(n.op, ast.And)]
            for ai, a in enumerate(ands):
                for vi, v in enumerate(a.values):
                    if "type(" in ast.unparse(v) or "super()" in ast.unparse(v):
                        continue
                    if "rule_tests" in ast.unparse(v) or "is_concrete" in ast.unparse(v):
                        # not part of the definition (result slot) / a function of `parts`: dropping it preserves behaviour
                        continue
                    if len(a.values) < 2:
                        continue
                    t2 = copy.deepcopy(tree)
                    q2 = [n for n in ast.walk(t2) if isinstance(n, ast.FunctionDef) and n.name == "__eq__"][qi]
                    a2 = [n for n in ast.walk(q2) if isinstance(n, ast.BoolOp) and isinstance(n.op, ast.And)][ai]
                    a2.values = [x for j, x in enumerate(a2.values) if j != vi]
                    if len(a2.values) == 1:
                        continue
                    yield (f"eq-drop-conjunct:{mod}:eq{qi}:{ast.unparse(v)[:40]}", mod, _emit(t2), {"C14"}, "break")


def gen_callable_mutants(repo):
    src, tree = _parse(repo, "callables.py")
    swap = {ast.Lt: ast.LtE, ast.LtE: ast.Lt, ast.Gt: ast.GtE, ast.GtE: ast.Gt, ast.Eq: ast.NotEq, ast.NotEq: ast.Eq, ast.In: ast.NotIn, ast.NotIn: ast.In}
    cmps = [n for n in ast.walk(tree) if isinstance(n, ast.Compare) and type(n.ops[0]) in swap]
    for ci, c in enumerate(cmps):
        t2 = copy.deepcopy(tree)
        c2 = [n for n in ast.walk(t2) if isinstance(n, ast.Compare) and type(n.ops[0]) in swap][ci]
        c2.ops = [swap[type(c2.ops[0])]()]
        yield (f"swap-compare:{ast.unparse(c)[:40]}", "callables.py", _emit(t2), {"C01"}, "break")
    # operand swap for non-commutative operators
    bins = [n for n in ast.walk(tree) if isinstance(n, ast.BinOp) and isinstance(n.op, (ast.Mod, ast.Sub))]
    for bi, b in enumerate(bins):
        t2 = copy.deepcopy(tree)
        b2 = [n for n in ast.walk(t2) if isinstance(n, ast.BinOp) and isinstance(n.op, (ast.Mod, ast.Sub))][bi]
        b2.left, b2.right = b2.right, b2.left
        under_abs = any(isinstance(n, ast.Call) and isinstance(n.func, ast.Name) and n.func.id == "abs" and n.args and ast.dump(n.args[0]) == ast.dump(b) for n in ast.walk(tree))
        if isinstance(b.op, ast.Sub) and under_abs:
            # abs(a - b) is symmetric: a neutral edit
            yield (f"swap-operands-under-abs:{ast.unparse(b)[:30]}", "callables.py", _emit(t2), {"C01"}, "neutral")
        else:
            yield (f"swap-operands:{ast.unparse(b)[:30]}", "callables.py", _emit(t2), {"C01"}, "break")


def gen_text_mutants(repo):
    """Hand-picked single edits expressed on normalised statement text (looked up, not positional)."""
    edits = [
        ("schema.py", "return out", "return", {"C06"}, "bare-return-in-report", "ValidatedData.get_failures_string"),
        ("schema.py", "self.rules = sorted(rules, key=lambda i: len(i.path))", "self.rules = sorted(rules, key=lambda i: len(i.path), reverse=True)", {"C06", "C18"}, "sort-reverse", None),
        ("schema.py", "self.rules = sorted(self.rules, key=lambda i: len(i.path))", "self.rules = list(self.rules)", {"C06", "C18"}, "no-resort-after-add", None),
        ("schema.py", "return all(i.is_valid for i in self.rule_tests)", "return all(i.is_valid for i in self.rule_tests[:1])", {"C06"}, "fold-over-prefix", None),
        ("schema.py", "return sum(i.num_failures for i in self.rule_tests)", "return max(i.num_failures for i in self.rule_tests)", {"C06"}, "sum->max", None),
        ("schema.py", "return ValidatedData(self, data)", "self.rule_tests = ValidatedData(self, data).rule_tests\n        return ValidatedData(self, data)", {"C08", "C13"}, "validate-stores-on-schema", None),
        ("rules.py", "return RuleTest(self, data_copy)", "return RuleTest(self, data)", {"C05", "C15"}, "judge-original-not-copy", None),
        ("rules.py", "if not f_item.result:", "if not f_item.result and len(failures) < 1:", {"C05"}, "record-only-first-failure", None),
        ("rules.py", "path_exists = sub_data not in [None, []]", "path_exists = sub_data is not None", {"C05"}, "weaken-path-exists", "RuleTest._test"),
        ("rules.py", "source_data=self.data,", "source_data=None,", {"C05", "C17"}, "drop-source-document", None),
        ("conditions.py", "return isinstance(self, NullCondition)", "return self.callable.func is call_funcs.null if hasattr(self, 'callable') else False", {"C02"}, "null-by-callable", None),
        ("conditions.py", "return ConditionOr(self, other)", "return ConditionXor(self, other)", {"C02"}, "or-builds-xor", None),
        ("conditions.py", "data, operator.xor, data_has_paths=data_has_paths, source_data=source_data", "data, operator.or_, data_has_paths=data_has_paths, source_data=source_data", {"C02"}, "xor-filters-as-or", None),
        ("conditions.py", "if spec_key in BINARY_OPS:", "if spec_key_split[0] in BINARY_OPS:", {"C09", "C19"}, "operator-branch-on-first-token", None),
        ("conditions.py", "callable_error.append(callable_error_i)", "if callable_error_i:\n                callable_error.append(callable_error_i)", {"C01"}, "append-under-if", None),
        ("conditions.py", "if data_has_paths:\n                datum, _ = datum", "if data_has_paths:\n                datum, _ = datum\n            if datum is None:\n                continue", {"C01"}, "continue-in-item-loop", None),
        ("data.py", "False if i else (False if j else (False if k else True))", "False if i else (False if j else True)", {"C01"}, "result-ignores-callable-false", None),
        ("data.py", "return [idx for idx, i in enumerate(self.result) if not i]", "return [idx for idx, i in enumerate(self.result) if i]", {"C01"}, "failure-indices-inverted", None),
        ("data.py", "self.result = [binary_op(i, j) for i, j in zip(fd1.result, fd2.result)]", "self.result = [binary_op(i, j) for i, j in zip(fd1.result, fd1.result)]", {"C02"}, "combine-left-with-left", None),
        ("datapath.py", "return None if self.is_concrete else []", "return [] if self.is_concrete else None", {"C03"}, "not-found-swapped", None),
        ("datapath.py", "data = [len(i) for i in data]", "data = [len(i) for i in data if i]", {"C04"}, "datum-extraction-filters", None),
        ("datapath.py", "data = data[-1]", "data = data[0]", {"C04"}, "last-returns-first", None),
        ("datapath.py", "condition = self.list_condition & self.condition", "condition = self.list_condition | self.condition", {"C02"}, "part-conditions-or", None),
        ("datapath.py", "spec = dict(spec)  # arguments are popped below; leave the caller's spec unchanged", "pass", {"C16"}, "part-parser-consumes-caller-spec", None),
        ("datapath.py", "if not isinstance(spec, dict) or not spec:", "if not isinstance(spec, dict):", {"C19"}, "empty-mapping-not-rejected", None),
        ("datapath.py", "and isinstance(part.condition, cnds.Key)", "and part.condition.is_key_like", {"C12"}, "simplify-guard-weakened", None),
        ("datapath.py", "            return DataPath(\n                *self.parts,\n                *other.parts,\n                datum_type=other.DATUM_TYPE,\n                multi_type=other.MULTI_TYPE,\n            )", "            obj = copy.copy(self)\n            obj.parts = self.parts + other.parts\n            return obj", {"C18", "C04"}, "truediv-keeps-stale-state", None),
        ("schema.py", "new_rule = Rule(", "rule.path = root_path / rule.path\n            new_rule = Rule(", {"C18"}, "add-schema-rebinds-added-rule", None),
        ("schema.py", "items[path_i_str].get(\"required\", False)\n                        or key_cnd.callable.name == \"required_keys\"", "key_cnd.callable.name == \"required_keys\"", {"C20"}, "required-overwritten", None),
        ("rules.py", "doc = copy.deepcopy(spec.get(\"doc\"))", "doc = spec.get(\"doc\")", {"C16"}, "doc-normalised-in-place", None),
        ("rules.py", "set_datum(data_copy, datum_path, cast_datum)", "set_datum(data_copy, datum_path, datum)", {"C15"}, "write-back-uncast-value", None),
        ("conditions.py", "elif isinstance(arg, dict):\n        return {k: resolve_data_path_arg(v, source_data) for k, v in arg.items()}", "", {"C17"}, "resolver-skips-mappings", None),
        ("casting.py", "(str, int): int,", "(str, int): float,", {"C13"}, "cast-table-changed-neutral-for-roundtrip", "neutral"),
        ("conditions.py", '"in": "in_",', '"in": "not_in",', {"C09"}, "callable-alias-wrong", None),
        ("conditions.py", '"len": "length",', '"len": "dtype",', {"C09"}, "preproc-alias-wrong", None),
        ("conditions.py", '"int": int,', '"int": float,', {"C09", "C11"}, "type-name-table-wrong", None),
        ("conditions.py", 'elif len(func_args["POSITIONAL_OR_KEYWORD"]) == 1 and not any(\n                func_args[i] for i in ("VAR_POSITIONAL", "VAR_KEYWORD")\n            ):\n                # exactly one', 'elif len(func_args["POSITIONAL_OR_KEYWORD"]) >= 1 and not any(\n                func_args[i] for i in ("VAR_POSITIONAL", "VAR_KEYWORD")\n            ):\n                # exactly one', {"C09", "C11"}, "reader-ladder-branch-widened", None),
        ("conditions.py", "def in_range(cls, lower, upper):", "def in_range(cls, low, upper):", {"C01", "C09", "C11"}, "constructor-parameter-renamed", None),
        ("conditions.py", "return cls(call_funcs.in_range, lower=lower, upper=upper)", "return cls(call_funcs.in_range, lower, upper)", {"C11", "C09"}, "constructor-stores-positionally", None),
        ("conditions.py", "return cls(call_funcs.keys_contain_all_of, *keys)", "return cls(call_funcs.keys_contain_any_of, *keys)", {"C01", "C09"}, "constructor-binds-sibling-callable", None),
        ("conditions.py", "return {self.FLATTEN_SYMBOL: [i.to_json_like() for i in self.children]}", "return {self.FLATTEN_SYMBOL: [i.to_json_like() for i in self.children[:1]]}", {"C11"}, "combination-serialises-first-child-only", None),
        ("conditions.py", "return {self.FLATTEN_SYMBOL: [i.to_json_like() for i in self.children]}", "ops = []\n        for i in self.children:\n            if type(i) is type(self):\n                ops.extend(i.to_json_like()[self.FLATTEN_SYMBOL])\n            else:\n                ops.append(i.to_json_like())\n        return {self.FLATTEN_SYMBOL: ops}", {"C11"}, "combination-writer-flattens-same-operator-children", None),
        ("conditions.py", "return {self.FLATTEN_SYMBOL: [i.to_json_like() for i in self.children]}", "ops = []\n        for i in self.children:\n            ops.append(i.to_json_like())\n        return {self.FLATTEN_SYMBOL: ops}", {"C11"}, "combination-writer-as-loop-neutral", "neutral"),
        ("conditions.py", "name.lower(): name\n", "name: name\n", {"C09", "C11"}, "callable-name-table-keys-not-lower-cased", None),
        ("conditions.py", "spec_val = copy.deepcopy(list(self.callable.args))", "spec_val = copy.deepcopy(self.callable.kwargs)", {"C11"}, "writer-varargs-branch-emits-kwargs", None),
        ("datapath.py", "if part.label is not None:", "if False:", {"C12"}, "labels-silently-dropped", None),
        ("datapath.py", "and part.condition == cnds.NullCondition()\n            ):\n                if part.CONTAINER_TYPE is Container.MAP:", "):\n                if part.CONTAINER_TYPE is Container.MAP:", {"C12"}, "bare-type-for-any-condition", None),
        ("datapath.py", "and is_single_cond\n                and isinstance(part.condition, cnds.Key)", "and isinstance(part.condition, cnds.Key)", {"C12"}, "simplify-drops-single-condition-guard", None),
        ("rules.py", '"cast": cast,\n', "", {"C13"}, "cast-not-serialised", None),
        ("schema.py", "out = [i.to_json_like() for i in self.rules]", "out = [i.to_json_like() for i in self.rules[:-1]]", {"C13"}, "schema-drops-last-rule", None),
        ("rules.py", "cast_to_types = {(k[0], v): k[1] for k, v in CAST_LOOKUP.items()}", "cast_to_types = {(k[0], v): k[0] for k, v in CAST_LOOKUP.items()}", {"C13", "C15"}, "cast-written-as-source-type", None),
        ("conditions.py", "pathlib.Path: \"path\",", "pathlib.Path: \"str\",", {"C11"}, "inverse-type-table-broken", None),
        # after F26-F30
        ("datapath.py", "                datum_type=other.DATUM_TYPE,\n                multi_type=other.MULTI_TYPE,\n", "", {"C18"}, "truediv-drops-modifiers", None),
        ("datapath.py", "                and isinstance(part.condition.callable.kwargs[\"value\"], (str, float))\n", "", {"C12"}, "simplify-emits-int-key-of-map-part", None),
        ("datapath.py", "                and (\n                    part.map_condition.callable.kwargs[\"value\"]\n                    == part.list_condition.callable.kwargs[\"value\"]\n                )\n", "", {"C12"}, "simplify-ignores-key-index-mismatch", None),
        ("conditions.py", "                except NotADataPathSpec:\n                    # Check values for DataPath specs:", "                except Exception:\n                    # Check values for DataPath specs:", {"C19"}, "probe-swallows-malformed-paths", None),
        ("callables.py", "    if isinstance(trial_datum, str):\n        # `str % x` is string formatting, not a remainder\n        raise TypeError(\"A string has no factors.\")\n", "", {"C01", "C03", "C07"}, "string-datum-formatted-by-has_factor", None),
        ("rules.py", "            if not isinstance(descriptions, list):", "            if False:", {"C19"}, "doc-description-mapping-accepted", None),
        ("data.py", "self.callable_false = [not i for i in self.result]", "self.callable_false = [any((i, j)) for i, j in zip(fd1.callable_false, fd2.callable_false)]", {"C05"}, "combination-reason-row-from-children", None),
        ("rules.py", "        if \"shared_data\" in kwargs:\n            return out, kwargs[\"shared_data\"]", "        out = {k: v for k, v in out.items() if v}\n        if \"shared_data\" in kwargs:\n            return out, kwargs[\"shared_data\"]", {"C13"}, "rule-writer-drops-falsy-entries", "Rule.to_json_like"),
        ("rules.py", "            if path_exists:\n                for datum, datum_path in sub_data:", "            if True:\n                for datum, datum_path in sub_data or []:", {"C07", "C15"}, "cast-loop-unguarded", None),
        ("schema.py", "path_str = tuple(str(i) for i in rule.path.parts)  # use as a dict key", "path_str = tuple(str(i) for i in path_simple)  # use as a dict key", {"C20"}, "node-identity-from-simplified-path", None),
        # after the fourth round of refactorings
        ("conditions.py", "if data_has_paths:\n                datum, _ = datum", "if data_has_paths:\n                datum, _ = datum\n            if processed and datum == processed[-1]:\n                pre_processor_error.append(pre_processor_error[-1])\n                callable_error.append(callable_error[-1])\n                callable_false.append(callable_false[-1])\n                processed.append(processed[-1])\n                continue", {"C01"}, "item-reuses-previous-record", None),
        ("conditions.py", "                    spec_val = INV_DTYPE_LOOKUP[spec_val]\n", "                    spec_val = next(v for k, v in INV_DTYPE_LOOKUP.items() if issubclass(spec_val, k))\n", {"C11"}, "type-named-by-subclass-walk", None),
        ("schema.py", "path=root_path / rule.path,", "path=(root_path / rule.path) if len(rule.path) else root_path,", {"C18"}, "re-rooting-shortcut-for-root-rules", None),
        ("datapath.py", "if isinstance(self.parts[-1], MapValue):", "if isinstance(parts[-1], str):", {"C12", "C13"}, "explicit-form-by-value-type", None),
        ("datapath.py", "        if self.source_data:\n            data = self.source_data", "        if self.source_data is not None:\n            data = self.source_data", {"C12"}, "binding-test-disagrees", None),
        ("schema.py", "/ DataPath(key)", "/ MapValue(key)", {"C20"}, "named-key-explicit-part", None),
        ("conditions.py", "    MalformedDataPathSpec,\n", "    MalformedDataPathSpec,\n    NotADataPathSpec as _unused_alias,\n", set(), "import-alias-added", "neutral"),
    ]
    for e in edits:
        mod, old, new, props, label, extra = e
        with open(os.path.join(repo, "valida", mod)) as fh:
            src = fh.read()
        lo, hi = 0, len(src)
        if extra and extra != "neutral":
            fn = _func(ast.parse(src), extra)
            if fn is None:
                yield (f"text:{label}", mod, None, props, "inapplicable")
                continue
            lines = src.splitlines(keepends=True)
            lo = sum(len(l) for l in lines[: fn.lineno - 1])
            hi = sum(len(l) for l in lines[: fn.end_lineno])
        seg = src[lo:hi]
        if old not in seg:
            yield (f"text:{label}", mod, None, props, "inapplicable")
            continue
        kind = "neutral" if extra == "neutral" else "break"
        yield (f"text:{label}", mod, src[:lo] + seg.replace(old, new, 1) + src[hi:], props, kind)


def gen_neutral(repo):
    for mod in sorted(os.listdir(os.path.join(repo, "valida"))):
        if not mod.endswith(".py"):
            continue
        src, tree = _parse(repo, mod)
        yield (f"neutral:unparse-reformat:{mod}", mod, _emit(tree), None, "neutral")
    # rename locals in selected functions
    for mod, qual, ren in (("conditions.py", "Condition._filter", {"processed_i": "proc", "result_i": "res"}),
                           ("datapath.py", "DataPath.get_data", {"filtered_data": "fd", "part_idx": "pi"}),
                           ("rules.py", "RuleTest._test", {"failure_item": "fi"}),
                           ("schema.py", "write_tree_html", {"doc_para": "para", "chd_cnd": "cnd_txt"})):
        src, tree = _parse(repo, mod)
        f = _func(tree, qual)
        if f is None:
            continue

        class R(ast.NodeTransformer):
            def visit_Name(self, n):
                if n.id in ren:
                    n.id = ren[n.id]
                return n
        R().visit(f)
        yield (f"neutral:rename-locals:{qual}", mod, _emit(tree), None, "neutral")
    # reorder classes in handler tuples, commute == operands in __eq__
    for mod in ("conditions.py", "rules.py"):
        src, tree = _parse(repo, mod)
        ch = False
        for n in ast.walk(tree):
            if isinstance(n, ast.ExceptHandler) and isinstance(n.type, ast.Tuple):
                n.type.elts = list(reversed(n.type.elts))
                ch = True
        if ch:
            yield (f"neutral:reorder-handler-tuple:{mod}", mod, _emit(tree), None, "neutral")
    for mod in ("datapath.py", "rules.py", "schema.py"):
        src, tree = _parse(repo, mod)
        for q in [n for n in ast.walk(tree) if isinstance(n, ast.FunctionDef) and n.name == "__eq__"]:
            for c in ast.walk(q):
                if isinstance(c, ast.Compare) and len(c.ops) == 1 and isinstance(c.ops[0], ast.Eq):
                    c.left, c.comparators = c.comparators[0], [c.left]
        yield (f"neutral:commute-eq-operands:{mod}", mod, _emit(tree), None, "neutral")


GENERATORS = [gen_handler_mutants, gen_copy_mutants, gen_escape_mutants, gen_tag_mutants, gen_eq_mutants, gen_callable_mutants, gen_text_mutants, gen_neutral]


def all_variants(repo):
    out = []
    for g in GENERATORS:
        try:
            out.extend(g(repo))
        except Exception as e:  # a generator that cannot apply is reported, never fatal
            out.append((f"generator-error:{g.__name__}:{e}", "", None, None, "inapplicable"))
    return out


def _run_variant(args):
    label, mod, new_src, pid, repo, scratch_root = args
    d = tempfile.mkdtemp(prefix="v", dir=scratch_root)
    try:
        shutil.copytree(os.path.join(repo, "valida"), os.path.join(d, "valida"))
        with open(os.path.join(d, "valida", mod), "w") as fh:
            fh.write(new_src)
        try:
            compile(new_src, mod, "exec")
        except SyntaxError:
            return label, "does-not-compile", ""
        env = dict(os.environ, VSTATIC_REPO=d, VSTATIC_EVIDENCE_DIR=os.path.join(d, "ev"), VSTATIC_SERIAL="1")
        r = subprocess.run([PY, "-m", "vstatic", "check", pid, "--tier", "quick"], cwd=VERIF, env=env, capture_output=True, text=True)
        first = next((l.strip() for l in r.stdout.splitlines() if l.startswith("  rule=")), "")
        if r.returncode == 2:
            first = next((l.strip() for l in r.stdout.splitlines() if "ANALYSIS-ERROR" in l), "")
        return label, {0: "silent", 1: "fired", 2: "analysis-error"}.get(r.returncode, "?"), first[:200]
    finally:
        shutil.rmtree(d, ignore_errors=True)


def package_sweep(repo):
    """Whole-package cross-reference output (not a verdict): the path-insensitive analyses run
    over every function of the package, so a reader can see what the anchored rules leave out."""
    from .program import Program, norm
    from .rules.html import possibly_unbound
    from .rules.reflect import getattr_sites
    prog = Program(repo)
    unbound = {}
    for f in prog.all_functions():
        iss = sorted({n for n, _ in possibly_unbound(f, None)})
        if iss:
            unbound[f.qualname] = iss
    stores = []
    for f in prog.all_functions():
        if f.name == "__init__":
            continue
        for n in ast.walk(f.node):
            if isinstance(n, (ast.Assign, ast.AugAssign)):
                for t in (n.targets if isinstance(n, ast.Assign) else [n.target]):
                    if isinstance(t, ast.Attribute):
                        stores.append(f"{f.qualname}: {norm(n)[:80]}")
    refl = [f"{f.qualname}: {norm(c)} -> {sorted(a) if a is not None else 'unbounded'}" for f, c, t, a in getattr_sites(prog)]
    return {
        "functions": len(prog.functions), "classes": len(prog.classes),
        "possibly_unbound_locals_all_functions": unbound,
        "note_possibly_unbound": "validate_rule_paths.actual_type is a known infeasible-path report in code no property anchors",
        "attribute_stores_outside___init__": stores,
        "reflection_sites": refl,
    }


def main_thorough(pid, seed, repo=None):
    repo = repo or REPO
    t0 = time.time()
    rc = main_check(pid, "thorough", seed, repo)
    if rc != 0:
        return rc
    variants = all_variants(repo)
    mine = []
    for (label, mod, src, props, kind) in variants:
        if kind == "inapplicable" or src is None:
            continue
        if kind == "neutral" or (props and pid in props):
            mine.append((label, mod, src, kind))
    rnd = random.Random(seed)
    rnd.shuffle(mine)
    scratch_root = tempfile.mkdtemp(prefix="vstatic_selftest_")
    results = []
    try:
        with ThreadPoolExecutor(max_workers=min(16, os.cpu_count() or 4)) as ex:
            for res in ex.map(_run_variant, [(l, m, s, pid, repo, scratch_root) for (l, m, s, k) in mine]):
                results.append(res)
    finally:
        shutil.rmtree(scratch_root, ignore_errors=True)
    kinds = {l: k for (l, m, s, k) in mine}
    killed = [r for r in results if kinds[r[0]] == "break" and r[1] == "fired"]
    survived = [r for r in results if kinds[r[0]] == "break" and r[1] != "fired"]
    quiet = [r for r in results if kinds[r[0]] == "neutral" and r[1] == "silent"]
    noisy = [r for r in results if kinds[r[0]] == "neutral" and r[1] != "silent"]
    # extend the evidence file written by the quick part
    from .report import EVIDENCE_DIR
    path = os.path.join(EVIDENCE_DIR, f"{pid}.json")
    with open(path) as fh:
        ev = json.load(fh)
    cov = ev["coverage"]
    cov["self_validation"] = {
        "variants_derived_from_current_tree": len(mine),
        "breaking_variants": len(killed) + len(survived),
        "killed": len(killed),
        "survived": [{"variant": s[0], "outcome": s[1]} for s in survived],
        "neutral_variants": len(quiet) + len(noisy),
        "neutral_silent": len(quiet),
        "neutral_alarms": [{"variant": s[0], "outcome": s[1], "first": s[2]} for s in noisy],
        "kill_samples": [{"variant": k[0], "report": k[2]} for k in killed[:12]],
    }
    cov["package_sweep_cross_reference"] = package_sweep(repo)
    cov["programs"] = len(mine)
    cov["disagreements_checked"] = len(survived) + len(noisy)
    ev["wall_s"] = round(time.time() - t0, 3)
    with open(path, "w") as fh:
        json.dump(ev, fh, indent=1, default=str)
    print(f"[{pid}] thorough self-validation: {len(killed)}/{len(killed) + len(survived)} breaking variants reported, "
          f"{len(quiet)}/{len(quiet) + len(noisy)} neutral variants silent ({time.time() - t0:.1f}s)")
    for s in survived:
        print(f"  SURVIVED {s[0]} -> {s[1]}")
    for s in noisy:
        print(f"  NEUTRAL-ALARM {s[0]} -> {s[1]} {s[2]}")
    return 0
