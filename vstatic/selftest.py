"""Thorough tier: whole-package sweep + self-validation of the rules by derived mutants."""
from .engine import main_check


def main_thorough(pid, seed, repo=None):
    return main_check(pid, "thorough", seed, repo)
