"""Anchor discovery by content rather than by fixed name, so that a rename / wrapper around an
anchored function is followed instead of producing a bogus verdict.  A missing anchor is an
analysis error (exit 2), never a silent pass."""

from __future__ import annotations

import ast

from . import AnalysisError
from .program import FuncInfo, Program


def _assigns_local(func: FuncInfo, name: str):
    for st in ast.walk(func.node):
        if isinstance(st, ast.Assign) and any(isinstance(t, ast.Name) and t.id == name for t in st.targets):
            return True
    return False


def _find(prog: Program, module: str, table: str, what: str, prefer: str) -> FuncInfo:
    cands = [f for f in prog.all_functions() if f.module.name == module and _assigns_local(f, table)]
    if not cands and prefer in prog.functions:
        # the table was renamed / moved: the function of that name is still the anchor
        from .flatten import flat
        return flat(prog, prog.functions[prefer])
    if not cands:
        raise AnalysisError(f"anchor not found: the function in valida/{module}.py that builds the local table {table} ({what})")
    from .flatten import flat
    for f in cands:
        if f.qualname == prefer:
            return flat(prog, f)
    return flat(prog, cands[0])


def condition_parser(prog: Program) -> FuncInfo:
    """The function holding the condition-spec dispatch (normally ConditionLike.from_spec)."""
    return _find(prog, "conditions", "BINARY_OPS", "condition spec parser", "conditions.ConditionLike.from_spec")


def path_parser(prog: Program) -> FuncInfo:
    return _find(prog, "datapath", "DATUM_TYPE_MULTI_TYPE_LOOKUP", "data-path spec parser", "datapath.DataPath.from_spec")


def part_parser(prog: Program) -> FuncInfo:
    return _find(prog, "datapath", "CLS_LOOKUP", "path-part spec parser", "datapath.ContainerValue.from_spec")


def condition_writer(prog: Program) -> FuncInfo:
    from .flatten import flat
    for f in prog.all_functions():
        if f.module.name == "conditions" and f.name == "to_json_like":
            ff = flat(prog, f)
            if "get_func_args_by_kind" in ast.unparse(ff.node):
                return ff
    raise AnalysisError("anchor not found: the condition serialiser (to_json_like using get_func_args_by_kind)")


def tree_builder(prog: Program) -> FuncInfo:
    """The function assembling the documentation tree (normally Schema.to_tree)."""
    return _find(prog, "schema", "IMP_TYPE_LOOKUP", "documentation tree builder", "schema.Schema.to_tree")


def filter_hook_name(prog: Program) -> str:
    """Name of the per-class hook `ConditionLike.filter` dispatches to (normally `_filter`)."""
    f = prog.func("conditions.ConditionLike.filter")
    for n in ast.walk(f.node):
        if isinstance(n, ast.Return) and isinstance(n.value, ast.Call) and isinstance(n.value.func, ast.Attribute) \
                and isinstance(n.value.func.value, ast.Name) and n.value.func.value.id == "self":
            return n.value.func.attr
    raise AnalysisError("anchor not found: the hook method ConditionLike.filter returns through (`return self.<hook>(...)`)")


def filter_impl(prog: Program, cls_qualname: str) -> FuncInfo:
    """The class's own implementation of the filter hook, flattened."""
    from .flatten import flat
    name = filter_hook_name(prog)
    c = prog.cls(cls_qualname)
    m = c.methods.get(name)
    if m is None:
        raise AnalysisError(f"anchor not found: {cls_qualname}.{name} (the filter hook implementation)")
    return flat(prog, m)
