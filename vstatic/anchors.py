"""Anchor discovery by content rather than by fixed name, so that a rename / wrapper around an
anchored function is followed instead of producing a bogus verdict.  A missing anchor is an
analysis error (exit 2), never a silent pass."""

from __future__ import annotations

import ast

from . import AnalysisError
from .program import FuncInfo, Program


def _assigns_local(func: FuncInfo, name: str):
    for st in ast.walk(func.node):
        if isinstance(st, ast.Assign) and any(isinstance(t, ast.Name) and t.id == name for t in st.targets):
            return True
    return False


def _find(prog: Program, module: str, table: str, what: str, prefer: str) -> FuncInfo:
    cands = [f for f in prog.all_functions() if f.module.name == module and _assigns_local(f, table)]
    if not cands:
        raise AnalysisError(f"anchor not found: the function in valida/{module}.py that builds the local table {table} ({what})")
    from .flatten import flat
    for f in cands:
        if f.qualname == prefer:
            return flat(prog, f)
    return flat(prog, cands[0])


def condition_parser(prog: Program) -> FuncInfo:
    """The function holding the condition-spec dispatch (normally ConditionLike.from_spec)."""
    return _find(prog, "conditions", "BINARY_OPS", "condition spec parser", "conditions.ConditionLike.from_spec")


def path_parser(prog: Program) -> FuncInfo:
    return _find(prog, "datapath", "DATUM_TYPE_MULTI_TYPE_LOOKUP", "data-path spec parser", "datapath.DataPath.from_spec")


def part_parser(prog: Program) -> FuncInfo:
    return _find(prog, "datapath", "CLS_LOOKUP", "path-part spec parser", "datapath.ContainerValue.from_spec")


def condition_writer(prog: Program) -> FuncInfo:
    from .flatten import flat
    for f in prog.all_functions():
        if f.module.name == "conditions" and f.name == "to_json_like":
            ff = flat(prog, f)
            if "get_func_args_by_kind" in ast.unparse(ff.node):
                return ff
    raise AnalysisError("anchor not found: the condition serialiser (to_json_like using get_func_args_by_kind)")


def tree_builder(prog: Program) -> FuncInfo:
    """The function assembling the documentation tree (normally Schema.to_tree)."""
    return _find(prog, "schema", "IMP_TYPE_LOOKUP", "documentation tree builder", "schema.Schema.to_tree")
