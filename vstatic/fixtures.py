"""Positive / negative fixtures analysed by `python -m vstatic selfcheck` (MANIFEST.setup_cmd):
small programs on which each engine must give a known answer, so that a rule whose expected
count on /repo is zero cannot pass vacuously because its engine went blind."""

from __future__ import annotations

import ast
import os
import shutil
import sys
import tempfile
import textwrap


def _pkg(files):
    d = tempfile.mkdtemp(prefix="vstatic_fixture_")
    os.makedirs(os.path.join(d, "valida"))
    for name, src in files.items():
        with open(os.path.join(d, "valida", name), "w") as fh:
            fh.write(textwrap.dedent(src))
    return d


FIX_MOD = """
    import copy

    CACHE = {}

    class Box:
        def __init__(self, items):
            self.items = items

        def read(self, doc):
            try:
                return doc["k"] < 3
            except TypeError:
                return False

        def read_unguarded(self, doc):
            return doc["k"] < 3

        def mutate_arg(self, doc):
            doc["seen"] = True

        def mutate_copy(self, doc):
            d = copy.deepcopy(doc)
            d["seen"] = True
            return d

        def shallow(self, doc):
            d = dict(doc)
            d["inner"]["x"] = 1

        def remember(self, doc):
            CACHE["last"] = doc

        def lazy(self):
            try:
                return self._memo
            except AttributeError:
                self._memo = 1
                return self._memo
"""


def run_fixtures():
    from .aval import AVal, json_node, mk
    from .finite import ConstEval, allowed_sets
    from .interp import Interp
    from .program import Program
    from .rules.astutil import facts_at
    from .rules.html import balance, tokens
    from .rules.shape import canon, count_appends

    failures = []

    def check(name, cond):
        if not cond:
            failures.append(name)

    d = _pkg({"__init__.py": "", "fix.py": FIX_MOD})
    try:
        prog = Program(d)
        box = mk("inst:fix.Box", org=frozenset({("self", 0)}))
        doc = json_node("doc", 0)

        def run(meth, **args):
            it = Interp(prog, {}, {})
            s = it.run(prog.func(f"fix.Box.{meth}"), {"self": box, **args})
            return it, s

        it, s = run("read", doc=doc)
        check("E3: guarded subscript/compare on an input node raises nothing tainted but KeyError/IndexError", {k[0] for k, v in s.raises.items() if v[1]} == {"KeyError"})
        it, s = run("read_unguarded", doc=doc)
        check("E3: unguarded `doc['k'] < 3` may raise TypeError and KeyError", {"TypeError", "KeyError"} <= {k[0] for k, v in s.raises.items() if v[1]})
        it, s = run("mutate_arg", doc=doc)
        check("E4: store into an argument is a mutation of a protected origin", any(e.kind == "mut" and ["doc", 0] in [list(o) for o in e.detail["org"]] for e in it.events.values()))
        it, s = run("mutate_copy", doc=doc)
        check("E4: store into a deepcopy is not a mutation of the argument", not any(e.kind == "mut" and e.detail["org"] for e in it.events.values()))
        it, s = run("shallow", doc=doc)
        check("E4: store below a shallow copy reaches the argument", any(e.kind == "mut" and any(o[0] == "doc" for o in e.detail["org"]) for e in it.events.values()))
        it, s = run("remember", doc=doc)
        check("E4: store into module-level state has origin `global`", any(e.kind == "mut" and any(o[0] == "global" for o in e.detail["org"]) for e in it.events.values()))
        it, s = run("lazy")
        check("E4: lazily created field is stored on self (handler path analysed)", any(e.kind == "mut" and e.detail.get("attr") == "_memo" for e in it.events.values()))
    finally:
        shutil.rmtree(d, ignore_errors=True)

    # E6: canonical forms and counting
    e = lambda s: ast.parse(s, mode="eval").body
    check("E6: `not a >= b` normalises to `a < b`", canon(e("not X >= value")) == "X < value")
    check("E6: `value > X` is oriented to `X < value`", canon(e("value > X")) == "X < value")
    check("E6: comprehension variables are renamed positionally", canon(e("[i for idx, i in enumerate(xs) if r[idx]]")) == canon(e("[v for k, v in enumerate(xs) if r[k]]")))
    body = ast.parse("if a:\n    out.append(1)\nelse:\n    out.append(2)\ntry:\n    f()\nexcept E:\n    out.append(3)\n").body
    lo, hi, _ = count_appends(body, "out")
    check("append counting: (1, 2) for if/else + handler", (lo, hi) == (1, 2))
    st, err = balance(tokens('<div class="a"><span>x</span></div>'))
    check("tag balance: balanced fragment", err is None and st == [])
    st, err = balance(tokens('<div><span>x</div>'))
    check("tag balance: mis-nested fragment is reported", err is not None)

    # facts_at with early exits
    d = _pkg({"__init__.py": "", "g.py": "def f(p):\n    if not (p.a and p.b):\n        raise ValueError\n    if p.c is not None:\n        raise ValueError\n    return {'type': 1}\n"})
    try:
        prog = Program(d)
        fn = prog.func("g.f")
        node = next(n for n in ast.walk(fn.node) if isinstance(n, ast.Dict))
        facts = facts_at(prog, fn, node, canon)
        check("dominating facts through early exits", {"p.a", "p.b", "p.c is None"} <= facts)
        # allowed-set dataflow
    finally:
        shutil.rmtree(d, ignore_errors=True)
    d = _pkg({"__init__.py": "", "h.py": "def f(obj, name):\n    T = {'a': 'x', 'b': 'y'}\n    if name not in T:\n        raise ValueError\n    name = T[name]\n    return getattr(obj, name)\n\ndef g(obj, name):\n    T = {'a': 'x'}\n    name = T.get(name, name)\n    return getattr(obj, name)\n"})
    try:
        prog = Program(d)
        a = list(allowed_sets(prog, prog.func("h.f")).values())
        b = list(allowed_sets(prog, prog.func("h.g")).values())
        check("R-REFLECT engine: whitelisted getattr has a finite name set", a and a[0][1] == {"x", "y"})
        check("R-REFLECT engine: pass-through default is not a whitelist", b and b[0][1] is None)
    finally:
        shutil.rmtree(d, ignore_errors=True)

    if failures:
        for f in failures:
            print("FIXTURE FAILED:", f)
        return 1
    print("selfcheck: 18 engine fixtures ok")
    return 0
