"""Positive / negative fixtures analysed on every run (a rule whose expected count on /repo is zero must still be shown to fire)."""


def run_fixtures():
    print("selfcheck: no fixtures registered yet")
    return 0
