"""Positive / negative fixtures analysed by `python -m vstatic selfcheck` (MANIFEST.setup_cmd):
small programs on which each engine must give a known answer, so that a rule whose expected
count on /repo is zero cannot pass vacuously because its engine went blind."""

from __future__ import annotations

import ast
import os
import shutil
import sys
import tempfile
import textwrap


def _pkg(files):
    d = tempfile.mkdtemp(prefix="vstatic_fixture_")
    os.makedirs(os.path.join(d, "valida"))
    for name, src in files.items():
        with open(os.path.join(d, "valida", name), "w") as fh:
            fh.write(textwrap.dedent(src))
    return d


FIX_MOD = """
    import copy

    CACHE = {}

    class Box:
        def __init__(self, items):
            self.items = items

        def read(self, doc):
            try:
                return doc["k"] < 3
            except TypeError:
                return False

        def read_unguarded(self, doc):
            return doc["k"] < 3

        def mutate_arg(self, doc):
            doc["seen"] = True

        def mutate_copy(self, doc):
            d = copy.deepcopy(doc)
            d["seen"] = True
            return d

        def shallow(self, doc):
            d = dict(doc)
            d["inner"]["x"] = 1

        def remember(self, doc):
            CACHE["last"] = doc

        def lazy(self):
            try:
                return self._memo
            except AttributeError:
                self._memo = 1
                return self._memo
"""


def run_fixtures():
    from .aval import AVal, json_node, mk
    from .finite import ConstEval, allowed_sets
    from .interp import Interp
    from .program import Program
    from .rules.astutil import facts_at
    from .rules.html import balance, tokens
    from .rules.shape import canon, count_appends

    failures = []

    def check(name, cond):
        if not cond:
            failures.append(name)

    d = _pkg({"__init__.py": "", "fix.py": FIX_MOD})
    try:
        prog = Program(d)
        box = mk("inst:fix.Box", org=frozenset({("self", 0)}))
        doc = json_node("doc", 0)

        def run(meth, **args):
            it = Interp(prog, {}, {})
            s = it.run(prog.func(f"fix.Box.{meth}"), {"self": box, **args})
            return it, s

        it, s = run("read", doc=doc)
        check("E3: guarded subscript/compare on an input node raises nothing tainted but KeyError/IndexError", {k[0] for k, v in s.raises.items() if v[1]} == {"KeyError"})
        it, s = run("read_unguarded", doc=doc)
        check("E3: unguarded `doc['k'] < 3` may raise TypeError and KeyError", {"TypeError", "KeyError"} <= {k[0] for k, v in s.raises.items() if v[1]})
        it, s = run("mutate_arg", doc=doc)
        check("E4: store into an argument is a mutation of a protected origin", any(e.kind == "mut" and ["doc", 0] in [list(o) for o in e.detail["org"]] for e in it.events.values()))
        it, s = run("mutate_copy", doc=doc)
        check("E4: store into a deepcopy is not a mutation of the argument", not any(e.kind == "mut" and e.detail["org"] for e in it.events.values()))
        it, s = run("shallow", doc=doc)
        check("E4: store below a shallow copy reaches the argument", any(e.kind == "mut" and any(o[0] == "doc" for o in e.detail["org"]) for e in it.events.values()))
        it, s = run("remember", doc=doc)
        check("E4: store into module-level state has origin `global`", any(e.kind == "mut" and any(o[0] == "global" for o in e.detail["org"]) for e in it.events.values()))
        it, s = run("lazy")
        check("E4: lazily created field is stored on self (handler path analysed)", any(e.kind == "mut" and e.detail.get("attr") == "_memo" for e in it.events.values()))
    finally:
        shutil.rmtree(d, ignore_errors=True)

    # E6: canonical forms and counting
    e = lambda s: ast.parse(s, mode="eval").body
    check("E6: `not a >= b` normalises to `a < b`", canon(e("not X >= value")) == "X < value")
    check("E6: `value > X` is oriented to `X < value`", canon(e("value > X")) == "X < value")
    check("E6: comprehension variables are renamed positionally", canon(e("[i for idx, i in enumerate(xs) if r[idx]]")) == canon(e("[v for k, v in enumerate(xs) if r[k]]")))
    body = ast.parse("if a:\n    out.append(1)\nelse:\n    out.append(2)\ntry:\n    f()\nexcept E:\n    out.append(3)\n").body
    lo, hi, _ = count_appends(body, "out")
    check("append counting: (1, 2) for if/else + handler", (lo, hi) == (1, 2))
    st, err = balance(tokens('<div class="a"><span>x</span></div>'))
    check("tag balance: balanced fragment", err is None and st == [])
    st, err = balance(tokens('<div><span>x</div>'))
    check("tag balance: mis-nested fragment is reported", err is not None)

    # facts_at with early exits
    d = _pkg({"__init__.py": "", "g.py": "def f(p):\n    if not (p.a and p.b):\n        raise ValueError\n    if p.c is not None:\n        raise ValueError\n    return {'type': 1}\n"})
    try:
        prog = Program(d)
        fn = prog.func("g.f")
        node = next(n for n in ast.walk(fn.node) if isinstance(n, ast.Dict))
        facts = facts_at(prog, fn, node, canon)
        check("dominating facts through early exits", {"p.a", "p.b", "p.c is None"} <= facts)
        # allowed-set dataflow
    finally:
        shutil.rmtree(d, ignore_errors=True)
    d = _pkg({"__init__.py": "", "h.py": "def f(obj, name):\n    T = {'a': 'x', 'b': 'y'}\n    if name not in T:\n        raise ValueError\n    name = T[name]\n    return getattr(obj, name)\n\ndef g(obj, name):\n    T = {'a': 'x'}\n    name = T.get(name, name)\n    return getattr(obj, name)\n"})
    try:
        prog = Program(d)
        a = list(allowed_sets(prog, prog.func("h.f")).values())
        b = list(allowed_sets(prog, prog.func("h.g")).values())
        check("R-REFLECT engine: whitelisted getattr has a finite name set", a and a[0][1] == {"x", "y"})
        check("R-REFLECT engine: pass-through default is not a whitelist", b and b[0][1] is None)
    finally:
        shutil.rmtree(d, ignore_errors=True)

    # rows and facts added after the seeding rounds
    MOD2 = """
        TABLE = {"a": 1, "b": 2}
        PAIRS = {(1, 2): "x"}

        class Wrap:
            def __init__(self, v):
                self.v = v

        class P:
            SHARED = []

            def __init__(self, *parts):
                self.parts = tuple(parts)

            def walk(self, data):
                if not self.parts:
                    return data
                out = [Wrap(data)]
                for p in self.parts:
                    out = [data]
                return out[0]

            def unpack_none(self, doc):
                found = (doc, 1) if doc else None
                pairs = [found]
                for a, b in pairs:
                    pass

            def guarded_unpack(self, doc):
                x = (doc, 1) if doc else None
                ok = x not in [None, []]
                x = [x]
                if ok:
                    for a, b in x:
                        pass

            def store_while_iterating(self, doc):
                for i, v in enumerate(doc):
                    doc[i] = v

            def store_into_snapshot_keys(self, doc):
                for k in list(doc.keys()):
                    doc[k] = 1

            def derived_key(self, doc):
                t = (TABLE[doc["a"]], TABLE[doc["b"]])
                return PAIRS[t]

            def class_state(self, doc):
                self.SHARED.append(doc)

            def fmt(self, doc):
                try:
                    return doc["s"] % 3
                except (TypeError, ZeroDivisionError, ValueError, KeyError):
                    return None
    """
    d = _pkg({"__init__.py": "", "m2.py": MOD2})
    try:
        prog = Program(d)
        me = mk("inst:m2.P", org=frozenset({("self", 0)}))
        doc = json_node("doc", 0)

        def run2(meth, **args):
            it = Interp(prog, {}, {})
            s = it.run(prog.func(f"m2.P.{meth}"), {"self": me, **args})
            return it, s
        me_parts = mk("inst:m2.P", org=frozenset({("self", 0)}), fields=(("parts", mk("tuple", elem=mk("int"))),))
        it = Interp(prog, {}, {})
        s = it.run(prog.func("m2.P.walk"), {"self": me_parts, "data": doc})
        check("attribute truthiness fact: after `if not self.parts: return` the loop runs at least once (no Wrap in the result)", "inst:m2.Wrap" not in s.ret.types)
        it, s = run2("unpack_none", doc=doc)
        check("unpacking a possibly-None element may raise TypeError", any(k[0] == "TypeError" and "None" in v[0][-1][3] for k, v in s.raises.items()))
        it, s = run2("guarded_unpack", doc=doc)
        check("a remembered not-None test follows `x = [x]`", not any(k[0] == "TypeError" and "None" in v[0][-1][3] for k, v in s.raises.items()))
        it, s = run2("store_while_iterating", doc=doc)
        check("store under an enumerate index into a possibly-mapping being iterated may raise RuntimeError", any(k[0] == "RuntimeError" for k in s.raises))
        it, s = run2("store_into_snapshot_keys", doc=doc)
        check("store under its own keys taken from a snapshot does not", not any(k[0] == "RuntimeError" for k in s.raises))
        it, s = run2("derived_key", doc=doc)
        check("a table lookup keyed by values looked up with input keys may raise KeyError (tuple key)", any(k[0] == "KeyError" and "PAIRS" in k[2] for k in s.raises))
        it, s = run2("class_state", doc=doc)
        check("class-level mutable attribute has origin `global`", any(e.kind == "mut" and any(o[0] == "global" for o in e.detail["org"]) for e in it.events.values()))
        it, s = run2("fmt", doc=doc)
        check("`%` on an input node may raise OverflowError (printf formatting of an input string)", any(k[0] == "OverflowError" and v[1] for k, v in s.raises.items()))
    finally:
        shutil.rmtree(d, ignore_errors=True)

    # flattening
    from .flatten import flat
    MOD3 = """
        class C:
            def entry(self, x):
                y = self._prep(x, "a")
                if not y:
                    return None
                return self._finish(y)

            def _prep(self, v, name):
                if v is None:
                    return []
                w = getattr(v, "is_" + name)
                return [w]

            def _finish(self, y):
                for i in y:
                    if i:
                        return i
                return None

            def loop_helper(self, x):
                z = self._first(x)
                return z

            def _first(self, x):
                for i in x:
                    return i
    """
    d = _pkg({"__init__.py": "", "m3.py": MOD3})
    try:
        prog = Program(d)
        f1 = flat(prog, prog.func("m3.C.entry"))
        txt = ast.unparse(f1.node)
        check("flatten: assign-form helper with early return is inlined, constants substituted and folded", "_prep" not in txt and "v.is_a" in txt.replace("x.is_a", "v.is_a"))
        check("flatten: return-form helper is pasted", "_finish" not in txt and "for i in y" in txt)
        f2 = flat(prog, prog.func("m3.C.loop_helper"))
        check("flatten: a helper returning from inside a loop stays a call in assign form", "_first" in ast.unparse(f2.node))
    finally:
        shutil.rmtree(d, ignore_errors=True)

    MOD4 = """
        class P:
            @staticmethod
            def parse(spec, cls):
                take = P._take
                cond = None
                for kind, name in ((A, "key"), (B, "index")):
                    if cls == kind:
                        cond = take(cond, spec, name)
                return cond

            @staticmethod
            def parse_break(spec, cls):
                cond = None
                for kind, name in ((A, "key"), (B, "index")):
                    if cls == kind:
                        cond = P._take(cond, spec, name)
                        break
                return cond

            @staticmethod
            def _take(cond, spec, name):
                prefix = name + "."
                keys = [i for i in spec if i.startswith(prefix)]
                for k in keys:
                    cond = (cond, spec.pop(k))
                return cond

        class A: pass
        class B: pass
    """
    d = _pkg({"__init__.py": "", "m4.py": MOD4})
    try:
        prog = Program(d)
        t4 = ast.unparse(flat(prog, prog.func("m4.P.parse")).node)
        check("flatten: helper bound to a local is inlined, table loop unrolled, literal prefix propagated",
              "take" not in t4.replace("_take", "") and "_take" not in t4 and "for kind" not in t4 and "cls == A" in t4 and "cls == B" in t4
              and "startswith('key.')" in t4 and "startswith('index.')" in t4)
        t5 = ast.unparse(flat(prog, prog.func("m4.P.parse_break")).node)
        check("flatten: a table loop with a break is not unrolled", "for kind, name in" in t5)
    finally:
        shutil.rmtree(d, ignore_errors=True)

    # guard-clause continue is read as if/else when counting appends per iteration
    from .rules.shape import count_appends
    body = ast.parse("for x in xs:\n    if x.ok:\n        continue\n    out.append(x)\n").body[0].body
    check("count_appends: `if t: continue` + append is 0..1 appends, no jump", count_appends(body, "out", loop_body=True)[:2] == (0, 1) and not count_appends(body, "out", loop_body=True)[2])
    body = ast.parse("for x in xs:\n    if x.ok:\n        if x.y:\n            continue\n    out.append(x)\n").body[0].body
    check("count_appends: a nested continue is still a jump", bool(count_appends(body, "out", loop_body=True)[2]))

    MOD5 = """
        def emit(part, out):
            is_plain = isinstance(part, int) and part.ok
            is_both = is_plain and part.more
            if not is_both:
                raise ValueError(part)
            out.append(part.value)
    """
    d = _pkg({"__init__.py": "", "m5.py": MOD5})
    try:
        from .rules.astutil import facts_at
        from .program import norm
        prog = Program(d)
        f5 = prog.func("m5.emit")
        app = next(n for n in ast.walk(f5.node) if isinstance(n, ast.Call) and isinstance(n.func, ast.Attribute) and n.func.attr == "append")
        fs = facts_at(prog, f5, app, norm)
        check("facts_at: a flag bound once to a conjunction stands for its conjuncts, through a refusal guard",
              {"isinstance(part, int)", "part.ok", "part.more"} <= fs)
    finally:
        shutil.rmtree(d, ignore_errors=True)

    if failures:
        for f in failures:
            print("FIXTURE FAILED:", f)
        return 1
    print("selfcheck: 34 engine fixtures ok")
    return 0
