"""Abstract values for the unified abstract interpreter (types x origins x taint).

An AVal over-approximates the set of run-time objects an expression may denote:

* ``types``  - set of type tags.  'json' = a node of the tainted input (document or
  spec) whose JSON type is unknown: any of None/bool/int/float/str/list/dict.
  Concrete tags: none bool int float str list tuple dict set range iter type any,
  ``inst:<qualname>`` / ``cls:<qualname>`` for repository classes,
  ``func:<qualname>`` for repository functions, ``bfunc:<name>`` for builtins /
  externals, ``exc:<name>`` exception instances, ``lambda``, ``bmeth``.
* ``org``    - origin labels (root, depth): depth 0 = *is* the protected root object,
  1 = some object reachable from it.  Empty = created in the analysed activation tree
  (fresh) or unrelated to any protected root.
* ``taint``  - 0 clean; 1 library value whose content/length depends on the input;
  2 an input node itself (possibly narrowed by isinstance).
* ``elem`` / ``key`` - join of the elements (dict: values) / dict keys.
* ``tup``    - per-position values of a fixed-arity tuple.
* ``fields`` - record of an instance constructed inside the analysed activation tree
  (exact class), as sorted (name, AVal) pairs.
* ``const``  - exactly-known value: ('c', python constant) | ('enum', cls, member) |
  ('type', name) | ('meth', qualname) | ('lambda', id).
* ``nonempty`` - container known to be non-empty (must-information).
"""

from __future__ import annotations

from dataclasses import dataclass, replace
from typing import Optional, Tuple

MAX_DEPTH = 6

JSON_TAGS = frozenset({"none", "bool", "int", "float", "str", "list", "dict"})
CONTAINER_TAGS = frozenset({"list", "tuple", "dict", "set", "range", "iter", "str"})


@dataclass(frozen=True)
class AVal:
    types: frozenset = frozenset()
    org: frozenset = frozenset()
    taint: int = 0
    elem: Optional["AVal"] = None
    key: Optional["AVal"] = None
    tup: Optional[Tuple["AVal", ...]] = None
    fields: Optional[Tuple[Tuple[str, "AVal"], ...]] = None
    const: Optional[tuple] = None
    nonempty: bool = False
    hk: bool = False  # known hashable (was obtained as a mapping key)
    kof: Optional[str] = None  # name of the local mapping this value was obtained from as a key

    def __hash__(self):
        h = self.__dict__.get("_h")
        if h is None:
            h = hash((self.types, self.org, self.taint, self.elem, self.key, self.tup, self.fields, self.const, self.nonempty, self.hk, self.kof))
            object.__setattr__(self, "_h", h)
        return h

    # -- predicates ------------------------------------------------------------------
    @property
    def is_bottom(self):
        return not self.types

    def has(self, tag):
        return tag in self.types

    def only(self, *tags):
        return bool(self.types) and self.types <= frozenset(tags)

    def inst_classes(self):
        return [t[5:] for t in self.types if t.startswith("inst:")]

    def cls_classes(self):
        return [t[4:] for t in self.types if t.startswith("cls:")]

    def funcs(self):
        return [t[5:] for t in self.types if t.startswith("func:")]

    def bfuncs(self):
        return [t[6:] for t in self.types if t.startswith("bfunc:")]

    @property
    def is_json(self):
        return "json" in self.types

    def field(self, name):
        if self.fields is not None:
            for k, v in self.fields:
                if k == name:
                    return v
        return None

    def with_field(self, name, val):
        d = dict(self.fields or ())
        d[name] = val
        return replace(self, fields=tuple(sorted(d.items())))

    def const_value(self, default=None):
        if self.const is not None and self.const[0] == "c":
            return self.const[1]
        return default

    def cset(self):
        """Finite set of alternative constants (each a const tuple), or None."""
        if self.const is not None and self.const[0] == "cset":
            return self.const[1]
        return None

    @property
    def has_const(self):
        return self.const is not None and self.const[0] == "c"

    def all_orgs(self, depth=3):
        """Origins of this value and of everything reachable through elem/key/tup/fields."""
        out = set(self.org)
        if depth <= 0:
            return out
        for sub in self.subvalues():
            out |= sub.all_orgs(depth - 1)
        return out

    def subvalues(self):
        if self.elem is not None:
            yield self.elem
        if self.key is not None:
            yield self.key
        if self.tup is not None:
            yield from self.tup
        if self.fields is not None:
            for _, v in self.fields:
                yield v

    def short(self):
        t = ",".join(sorted(self.types)) or "BOTTOM"
        o = ",".join(f"{r}{'.*' if d else ''}" for r, d in sorted(self.org))
        s = t
        if o:
            s += f"@{o}"
        if self.taint:
            s += f"!{self.taint}"
        if self.const is not None:
            s += f"={self.const[-1]!r}"
        if self.elem is not None:
            s += f"[{self.elem.short()}]"
        return s


BOTTOM = AVal()
ANY = AVal(types=frozenset({"any"}))
NONE = AVal(types=frozenset({"none"}), const=("c", None))
BOOL = AVal(types=frozenset({"bool"}))
INT = AVal(types=frozenset({"int"}))
FLOAT = AVal(types=frozenset({"float"}))
STR = AVal(types=frozenset({"str"}))
TYPE = AVal(types=frozenset({"type"}))


def const(v):
    if v is None:
        return NONE
    tag = {bool: "bool", int: "int", float: "float", str: "str", bytes: "bytes"}.get(type(v))
    if tag is None:
        return ANY
    return AVal(types=frozenset({tag}), const=("c", v), nonempty=bool(v) if isinstance(v, (str, bytes)) else False)


def mk(*tags, **kw):
    return AVal(types=frozenset(tags), **kw)


def json_node(root, depth=0, taint=2, nonempty=False):
    return AVal(types=frozenset({"json"}), org=frozenset({(root, depth)}), taint=taint, nonempty=nonempty)


def deeper(org):
    return frozenset((r, 1) for r, _ in org)


def join(a: AVal, b: AVal, depth=MAX_DEPTH) -> AVal:
    if a is b or a == b:
        return a
    if a.is_bottom:
        return b
    if b.is_bottom:
        return a
    if depth <= 0:
        return summarise(join_shallow(a, b))
    types = a.types | b.types
    if any(t.startswith("!") for t in types):
        # "known not to be T" survives a join only if the other side cannot be T either
        keep = set()
        for x, y in ((a, b), (b, a)):
            for t in x.types:
                if t.startswith("!"):
                    tag = t[1:]
                    if tag not in y.types and (t in y.types or not (y.types & {"json", "any"})):
                        keep.add(t)
        types = frozenset(t for t in types if not t.startswith("!")) | keep
    elem = _join_opt(a.elem, b.elem, depth - 1)
    key = _join_opt(a.key, b.key, depth - 1)
    tup = None
    if a.tup is not None and b.tup is not None and len(a.tup) == len(b.tup):
        tup = tuple(join(x, y, depth - 1) for x, y in zip(a.tup, b.tup))
    elif a.tup is not None and "tuple" not in b.types:
        tup = a.tup   # the tuple alternative keeps its positions; `elem` describes the others
    elif b.tup is not None and "tuple" not in a.types:
        tup = b.tup
    else:
        # losing positional precision: fold positions into elem
        for t in (a.tup, b.tup):
            if t is not None:
                for x in t:
                    elem = x if elem is None else join(elem, x, depth - 1)
    fields = None
    if a.fields is not None and b.fields is not None:
        da, db = dict(a.fields), dict(b.fields)
        out = {}
        for k in set(da) | set(db):
            if k in da and k in db:
                out[k] = join(da[k], db[k], depth - 1)
            else:
                # field present on one side only: keep it (record of an exact class, the
                # other side simply has not assigned it yet on that path)
                out[k] = da.get(k) or db.get(k)
        fields = tuple(sorted(out.items()))
    elif a.fields is not None and not any(t.startswith("inst:") for t in b.types):
        fields = a.fields
    elif b.fields is not None and not any(t.startswith("inst:") for t in a.types):
        fields = b.fields
    cst = a.const if a.const == b.const else _merge_const(a.const, b.const)
    return AVal(
        types=types,
        org=a.org | b.org,
        taint=max(a.taint, b.taint),
        elem=elem,
        key=key,
        tup=tup,
        fields=fields,
        const=cst,
        nonempty=_ne(a) and _ne(b) and (a.nonempty or b.nonempty),
        kof=a.kof if a.kof == b.kof else None,
        hk=((a.hk if a.is_json else True) and (b.hk if b.is_json else True)) if (a.is_json or b.is_json) else False,
    )


_MAYBE_EMPTY = frozenset({"list", "tuple", "dict", "set", "str", "range", "iter", "json", "any", "int", "bytes"})


def _ne(v):
    """v cannot be an empty container: flagged non-empty, or not container-like at all."""
    return v.nonempty or not (v.types & _MAYBE_EMPTY)


def _merge_const(x, y):
    if x is None or y is None:
        return None
    sx = x[1] if x[0] == "cset" else frozenset({x})
    sy = y[1] if y[0] == "cset" else frozenset({y})
    s = sx | sy
    if len(s) > 8 or not all(c[0] in ("c", "enum", "type", "meth", "bmeth") for c in s):
        return None
    if any(c[0] == "c" and not isinstance(c[1], (str, type(None), bool, int)) for c in s):
        return None
    return ("cset", s)


def join_shallow(a, b):
    return AVal(
        types=frozenset(t for t in (a.types | b.types) if not t.startswith("!")),
        org=frozenset(a.all_orgs() | b.all_orgs()),
        taint=max(a.taint, b.taint, min(1, max(max_taint(a), max_taint(b)))),
        nonempty=a.nonempty and b.nonempty,
    )


def _join_opt(x, y, depth):
    if x is None:
        return y
    if y is None:
        return x
    return join(x, y, depth)


def join_all(vals, depth=MAX_DEPTH):
    out = BOTTOM
    for v in vals:
        out = join(out, v, depth)
    return out


def max_taint(v: AVal, depth=3):
    t = v.taint
    if depth > 0:
        for s in v.subvalues():
            t = max(t, max_taint(s, depth - 1))
    return t


def summarise(v: AVal) -> AVal:
    """Collapse nested structure (widening at the depth bound)."""
    return AVal(
        types=v.types,
        org=frozenset(v.all_orgs()),
        taint=v.taint if v.taint else min(1, max_taint(v)),
        const=v.const,
        nonempty=v.nonempty,
    )


def clip(v: AVal, depth=MAX_DEPTH) -> AVal:
    """Bound the nesting depth so the value space (and the memo table) stays finite."""
    if v.elem is None and v.key is None and v.tup is None and v.fields is None:
        return v
    if depth <= 0:
        return summarise(v)
    return replace(
        v,
        elem=clip(v.elem, depth - 1) if v.elem is not None else None,
        key=clip(v.key, depth - 1) if v.key is not None else None,
        tup=tuple(clip(x, depth - 1) for x in v.tup) if v.tup is not None else None,
        fields=tuple((k, clip(x, depth - 1)) for k, x in v.fields) if v.fields is not None else None,
    )


def fresh(v: AVal) -> AVal:
    """Deep copy: same shape, no origin anywhere."""
    return replace(
        v,
        org=frozenset(),
        elem=fresh(v.elem) if v.elem is not None else None,
        key=fresh(v.key) if v.key is not None else None,
        tup=tuple(fresh(x) for x in v.tup) if v.tup is not None else None,
        fields=tuple((k, fresh(x)) for k, x in v.fields) if v.fields is not None else None,
    )


def relabel(v: AVal, org) -> AVal:
    """Deep copy labelled as a *private* root (used for the cast copy)."""
    return replace(fresh(v), org=frozenset(org))


def is_fresh_empty(v: AVal) -> bool:
    """A container created empty in the analysed activation and never extended."""
    return (not v.is_bottom and bool(v.types) and v.types <= {"list", "tuple", "dict", "set"} and v.elem is None and v.tup is None
            and v.key is None and not v.is_json and not v.org and v.taint == 0 and not v.nonempty and v.const is None)


def elem_of(v: AVal) -> AVal:
    """Abstract element obtained by iterating / subscripting / .values() of v."""
    parts = []
    if v.elem is not None:
        parts.append(v.elem)
    if v.tup is not None:
        parts.extend(v.tup)
    if v.is_json:
        parts.append(AVal(types=frozenset({"json"}), org=deeper(v.org), taint=v.taint))
    elif not parts:
        if v.types and v.types <= {"list", "tuple", "dict", "set", "iter"} and not v.org and v.taint == 0 and not v.nonempty:
            # a container created empty in the analysed activation and never extended: no elements
            return BOTTOM
        if v.types & {"str"}:
            parts.append(AVal(types=frozenset({"str"}), taint=v.taint, org=frozenset()))
        elif v.types & {"range"}:
            parts.append(AVal(types=frozenset({"int"}), taint=min(v.taint, 1)))
        elif v.types & {"any"} or v.inst_classes() or v.types & CONTAINER_TAGS:
            parts.append(AVal(types=frozenset({"json"} if v.taint == 2 else {"any"}), org=deeper(v.org), taint=v.taint))
    if not parts:
        return BOTTOM if v.is_bottom else AVal(types=frozenset({"any"}), org=deeper(v.org), taint=v.taint)
    return join_all(parts)


def key_of(v: AVal) -> AVal:
    if v.key is not None:
        return replace(v.key, hk=True) if v.types <= {"dict"} else v.key
    if v.is_json or v.taint == 2:
        return AVal(types=frozenset({"json"}), org=deeper(v.org), taint=v.taint, hk=True)
    if v.types & {"list", "tuple", "range", "str"} and not v.types & {"dict", "any"}:
        return AVal(types=frozenset({"int"}))
    return AVal(types=frozenset({"any"}), org=deeper(v.org), taint=v.taint)


def narrow_json(v: AVal, tags) -> AVal:
    """Restrict v to the given concrete tags (isinstance true-branch)."""
    tags = frozenset(tags)
    if v.is_json:
        keep = (v.types - {"json"}) & tags
        jt = tags & JSON_TAGS
        new = keep | jt
        if "any" in v.types:
            new |= tags
        if not new:
            return BOTTOM
        out = replace(v, types=frozenset(new))
        if new & {"list", "dict"} and out.elem is None:
            out = replace(out, elem=AVal(types=frozenset({"json"}), org=deeper(v.org), taint=v.taint))
        if "dict" in new and out.key is None:
            out = replace(out, key=AVal(types=frozenset({"json"}), org=deeper(v.org), taint=v.taint, hk=True))
        if new == {"str"}:
            out = replace(out, elem=None, key=None)
        return out
    if "any" in v.types:
        return replace(v, types=(v.types - {"any"}) & tags | tags)
    new = v.types & tags
    if not new:
        return BOTTOM
    return replace(v, types=new)


def remove_tags(v: AVal, tags) -> AVal:
    tags = frozenset(tags)
    if v.is_json or "any" in v.types:
        new = v.types - tags
        return replace(v, types=new) if new else BOTTOM
    new = v.types - tags
    if not new:
        return BOTTOM
    out = replace(v, types=new)
    if out.const is not None and out.const == ("c", None) and "none" in tags:
        return BOTTOM
    return out


def shallow(v: AVal) -> AVal:
    """Shallow copy: a new outer object whose elements / keys are the original's."""
    if v.is_bottom:
        return v
    if v.is_json or (v.types & {"list", "dict", "tuple", "set"} and v.elem is None and v.tup is None and v.org):
        e = elem_of(v)
        k = key_of(v) if (v.is_json or "dict" in v.types) else v.key
        return replace(v, org=frozenset(), elem=e if not e.is_bottom else None, key=k)
    return replace(v, org=frozenset())
