"""Field-type hints and indirection resolvers for the abstract interpreter.

The static types of a few instance fields cannot be inferred from untyped constructor
parameters.  They are declared here (confirmed by reading the constructors) and every
entry is verified against the source on every run: the class and the field must exist,
otherwise the run is an analysis error.  Tables that say *which functions* an indirect
call may reach are not frozen: they are re-derived from the source (CAST_LOOKUP,
`cls(call_funcs.F, ...)` constructors, MRO-resolved class attributes).
"""

from __future__ import annotations

import ast

from . import AnalysisError
from .aval import ANY, AVal, BOOL, NONE, STR, join, join_all, mk
from .program import Program


def inst(q, **kw):
    return mk(f"inst:{q}", **kw)


from .program import FuncInfo


def dsl_bindings(prog: Program):
    """[(class, method FuncInfo, callables function name, call node)] for every classmethod
    whose body is `return cls(call_funcs.F, ...)`."""
    out = []
    cond = prog.module("conditions")
    for c in cond.classes.values():
        for f in c.methods.values():
            if f.kind != "classmethod":
                continue
            body = [s for s in f.node.body if not (isinstance(s, ast.Expr) and isinstance(s.value, ast.Constant))]
            if len(body) != 1 or not isinstance(body[0], ast.Return) or not isinstance(body[0].value, ast.Call):
                continue
            call = body[0].value
            if not (isinstance(call.func, ast.Name) and call.func.id == f.params[0].name and call.args):
                continue
            ent = prog.resolve_expr(cond, call.args[0])
            from .program import FuncInfo
            if isinstance(ent, FuncInfo) and ent.module.name == "callables":
                out.append((c, f, ent, call))
    return out


def cast_tables(prog: Program):
    """(CAST_DTYPE_LOOKUP: {name: typename}, CAST_LOOKUP: {(from, to): callee-name})."""
    m = prog.module("casting")
    d = prog.const_table(m, "CAST_DTYPE_LOOKUP")
    l = prog.const_table(m, "CAST_LOOKUP")
    if not isinstance(d, ast.Dict) or not isinstance(l, ast.Dict):
        raise AnalysisError("casting tables are not dict displays")
    dtype = {}
    for k, v in zip(d.keys, d.values):
        if not isinstance(v, ast.Name):
            raise AnalysisError("CAST_DTYPE_LOOKUP value is not a type name")
        if isinstance(k, ast.Constant):
            dtype[k.value] = v.id
        elif isinstance(k, ast.Name):
            dtype[("type", k.id)] = v.id     # a type object used as its own name (judged by R-CASTINV / R-JSONTYPE)
        else:
            raise AnalysisError("CAST_DTYPE_LOOKUP key is neither a string nor a type name")
    lookup = {}
    for k, v in zip(l.keys, l.values):
        if not (isinstance(k, ast.Tuple) and len(k.elts) == 2 and all(isinstance(e, ast.Name) for e in k.elts) and isinstance(v, ast.Name)):
            raise AnalysisError("CAST_LOOKUP entry is not `(type, type): callable`")
        lookup[(k.elts[0].id, k.elts[1].id)] = v.id
    return dtype, lookup


def build_hints(prog: Program):
    CL = inst("conditions.ConditionLike")
    DP = inst("datapath.DataPath")
    ARG = join(ANY, DP)
    dtype, lookup = cast_tables(prog)
    casting = prog.module("casting")
    fn_vals = []
    for (frm, to), callee in lookup.items():
        if callee in casting.functions:
            fn_vals.append(mk(f"func:casting.{callee}"))
        else:
            fn_vals.append(mk(f"bfunc:{callee}"))
    key_vals = [mk("type", const=("type", frm)) for (frm, to) in lookup]
    cast_dict = mk("dict", key=join_all(key_vals), elem=join_all(fn_vals))
    funcs = sorted({ent.qualname for _, _, ent, _ in dsl_bindings(prog)})
    if len(funcs) < 20:
        raise AnalysisError(f"only {len(funcs)} DSL constructor bindings found")
    func_val = join_all([mk(f"func:{q}") for q in funcs])
    hints = {
        # C05-C07 quantify over rules whose paths carry no datum / multiplicity modifier
        ("rules.Rule", "path"): mk("inst:datapath.DataPath", fields=(
            ("_DATUM_TYPE", mk("inst:datapath.DataPathDatumType", const=("enum", "datapath.DataPathDatumType", "NONE"))),
            ("_MULTI_TYPE", mk("inst:datapath.DataPathMultiType", const=("enum", "datapath.DataPathMultiType", "NONE"))),
        )),
        ("rules.Rule", "condition"): CL,
        ("rules.Rule", "cast"): join(NONE, cast_dict),
        ("rules.Rule", "doc"): join(NONE, ANY),
        ("schema.Schema", "rules"): mk("list", elem=inst("rules.Rule")),
        ("schema.Schema", "rule_tests"): NONE,
        ("datapath.DataPath", "parts"): mk("tuple", elem=inst("datapath.ContainerValue")),
        ("datapath.DataPath", "is_concrete"): BOOL,
        ("datapath.DataPath", "source_data"): join(NONE, ANY),
        ("datapath.DataPath", "_DATUM_TYPE"): inst("datapath.DataPathDatumType"),
        ("datapath.DataPath", "_MULTI_TYPE"): inst("datapath.DataPathMultiType"),
        ("datapath.MapValue", "condition"): CL,
        ("datapath.ListValue", "condition"): CL,
        ("datapath.MapOrListValue", "condition"): CL,
        ("datapath.MapOrListValue", "list_condition"): CL,
        ("datapath.MapOrListValue", "map_condition"): CL,
        ("datapath.MapValue", "label"): join(NONE, STR),
        ("datapath.ListValue", "label"): join(NONE, STR),
        ("datapath.MapOrListValue", "label"): join(NONE, STR),
        ("conditions.Condition", "callable"): inst("conditions.PreparedConditionCallable"),
        ("conditions.ConditionBinaryOp", "children"): mk("tuple", tup=(CL, CL), nonempty=True),
        ("conditions.PreparedConditionCallable", "_func"): func_val,
        ("conditions.PreparedConditionCallable", "_args"): mk("tuple", elem=ARG),
        ("conditions.PreparedConditionCallable", "_kwargs"): mk("dict", key=STR, elem=ARG),
        ("rules.RuleTest", "rule"): inst("rules.Rule"),
        ("schema.ValidatedData", "schema"): inst("schema.Schema"),
    }
    for (cq, fld) in hints:
        c = prog.cls(cq)
        if fld not in c.all_fields() and c.lookup(fld)[1] is None:
            raise AnalysisError(f"hinted field {cq}.{fld} is no longer assigned anywhere in the class")
    return hints
