"""Standard abstract entry contexts and case-split driver shared by the semantic rules."""

from __future__ import annotations

from .aval import AVal, BOOL, NONE, const, json_node, mk
from .hints import build_hints
from .interp import Interp
from .program import Program


def doc_root(root="data"):
    """The validated document: a non-empty list or mapping of unknown JSON content."""
    return AVal(types=frozenset({"list", "dict"}), org=frozenset({(root, 0)}), taint=2, nonempty=True,
                elem=json_node(root, 1), key=json_node(root, 1))


def obj(qualname, root=None):
    return mk(f"inst:{qualname}", org=frozenset({(root, 0)}) if root else frozenset())


class Merged:
    """Union of several interpreter runs (case splits)."""

    def __init__(self):
        self.raises = {}      # exc -> (witness, tainted)
        self.events = {}
        self.contexts = 0
        self.functions = set()
        self.rets = []
        self.cases = []

    def add(self, label, interp: Interp, summ):
        self.cases.append(label)
        for exc, (w, t) in summ.raises.items():
            old = self.raises.get(exc)
            if old is None or (t and not old[1]):
                self.raises[exc] = (w, t)
        for k, e in interp.events.items():
            self.events.setdefault(k, e)
        self.contexts += interp.contexts
        self.functions |= interp.functions_analysed
        self.rets.append(summ.ret)

    def by_kind(self, kind):
        return [e for e in self.events.values() if e.kind == kind]


CONCRETE_SPLIT = [
    ("is_concrete=True", {("datapath.DataPath", "is_concrete"): const(True)}),
    # a non-concrete path has at least one (container-value) part: DataPath.__init__
    ("is_concrete=False", {("datapath.DataPath", "is_concrete"): const(False),
                           ("datapath.DataPath", "parts"): mk("tuple", elem=mk("inst:datapath.ContainerValue"), nonempty=True)}),
]


def _one_case(job):
    prog, qual, args, config, override, extra_hints, pc, label = job
    base = build_hints(prog)
    if extra_hints:
        base.update(extra_hints)
    base.update(override)
    it = Interp(prog, base, dict(config or {}))
    summ = it.run(prog.func(qual), dict(args), pc=pc)
    return label, summ.raises, summ.ret, it.events, it.contexts, it.functions_analysed


_PROG = None


def _worker(job):
    job = (_PROG,) + job
    return _one_case(job)


def run_jobs(prog: Program, jobs):
    """jobs: list of (key, func qualname, args, config, splits, extra_hints).  Runs every
    (job x case split) - in parallel worker processes when possible - and returns
    {key: Merged}."""
    import os
    global _PROG
    flat = []
    for key, qual, args, config, splits, extra_hints in jobs:
        for label, override in (splits or [("default", {})]):
            flat.append((key, (qual, args, config, override, extra_hints, False, label)))
    results = None
    if len(flat) > 1 and not os.environ.get("VSTATIC_SERIAL"):
        try:
            import multiprocessing as mp
            from concurrent.futures import ProcessPoolExecutor
            _PROG = prog
            ctx = mp.get_context("fork")
            with ProcessPoolExecutor(max_workers=min(len(flat), os.cpu_count() or 2, 12), mp_context=ctx) as ex:
                results = list(ex.map(_worker, [j for _, j in flat]))
        except Exception:
            results = None
    if results is None:
        results = [_one_case((prog,) + j) for _, j in flat]
    out = {}
    for (key, _), (label, raises, ret, events, contexts, functions) in zip(flat, results):
        m = out.setdefault(key, Merged())
        m.cases.append(label)
        for k, (w, t) in raises.items():
            old = m.raises.get(k)
            if old is None or (t and not old[1]):
                m.raises[k] = (w, t)
        for k, e in events.items():
            m.events.setdefault(k, e)
        m.contexts += contexts
        m.functions |= functions
        m.rets.append(ret)
    return out


def run_cases(prog: Program, func, args, config=None, splits=None, pc=False, extra_hints=None) -> Merged:
    return run_jobs(prog, [("k", func.qualname, args, config, splits, extra_hints)])["k"]
