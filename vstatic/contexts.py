"""Standard abstract entry contexts and case-split driver shared by the semantic rules."""

from __future__ import annotations

from .aval import AVal, BOOL, NONE, const, json_node, mk
from .hints import build_hints
from .interp import Interp
from .program import Program


def doc_root(root="data"):
    """The validated document: a non-empty list or mapping of unknown JSON content."""
    return AVal(types=frozenset({"list", "dict"}), org=frozenset({(root, 0)}), taint=2, nonempty=True,
                elem=json_node(root, 1), key=json_node(root, 1))


def obj(qualname, root=None):
    return mk(f"inst:{qualname}", org=frozenset({(root, 0)}) if root else frozenset())


class Merged:
    """Union of several interpreter runs (case splits)."""

    def __init__(self):
        self.raises = {}      # exc -> (witness, tainted)
        self.events = {}
        self.contexts = 0
        self.functions = set()
        self.rets = []
        self.cases = []

    def add(self, label, interp: Interp, summ):
        self.cases.append(label)
        for exc, (w, t) in summ.raises.items():
            old = self.raises.get(exc)
            if old is None or (t and not old[1]):
                self.raises[exc] = (w, t)
        for k, e in interp.events.items():
            self.events.setdefault(k, e)
        self.contexts += interp.contexts
        self.functions |= interp.functions_analysed
        self.rets.append(summ.ret)

    def by_kind(self, kind):
        return [e for e in self.events.values() if e.kind == kind]


CONCRETE_SPLIT = [
    ("is_concrete=True", {("datapath.DataPath", "is_concrete"): const(True)}),
    # a non-concrete path has at least one (container-value) part: DataPath.__init__
    ("is_concrete=False", {("datapath.DataPath", "is_concrete"): const(False),
                           ("datapath.DataPath", "parts"): mk("tuple", elem=mk("inst:datapath.ContainerValue"), nonempty=True)}),
]


def run_cases(prog: Program, func, args, config=None, splits=None, pc=False, extra_hints=None) -> Merged:
    base = build_hints(prog)
    if extra_hints:
        base.update(extra_hints)
    merged = Merged()
    for label, override in (splits or [("default", {})]):
        h = dict(base)
        h.update(override)
        it = Interp(prog, h, dict(config or {}))
        summ = it.run(func, dict(args), pc=pc)
        merged.add(label, it, summ)
    return merged
