"""Check driver: runs the rules of one property, matches known findings, writes evidence."""

from __future__ import annotations

import os
import sys
import time
import traceback

from . import AnalysisError, REPO
from .program import Program
from .report import Finding, RuleResult, load_known, write_evidence, write_replay


class Ctx:
    def __init__(self, repo=None, tier="quick", seed=0):
        self.repo = repo or REPO
        self.tier = tier
        self.seed = seed
        self.prog = Program(self.repo)
        self._cache = {}

    def cached(self, key, builder):
        if key not in self._cache:
            self._cache[key] = builder()
        return self._cache[key]


def run_property(pid, tier="quick", seed=0, repo=None, quiet=False):
    from .properties import PROPERTIES

    t0 = time.time()
    spec = PROPERTIES[pid]
    ctx = Ctx(repo, tier, seed)
    results = []
    for rule in spec["rules"]:
        r = rule(ctx)
        if len(r.instances) < r.floor and not r.findings:
            raise AnalysisError(
                f"rule {r.rule}: only {len(r.instances)} instances enumerated, fewer than the floor {r.floor} confirmed on the pinned tree "
                f"(an anchor moved or the enumeration broke)"
            )
        results.append(r)
    known = [k for k in load_known() if k.get("status") == "known" and k.get("property") == pid]
    known_by_key = {k["key"]: k for k in known}
    violations = []
    known_hits = []
    seen_keys = set()
    for r in results:
        for f in r.findings:
            if f.key in seen_keys:
                continue
            seen_keys.add(f.key)
            if f.key in known_by_key:
                known_hits.append({"key": f.key, "what": known_by_key[f.key].get("what", "")})
            else:
                violations.append(f)
    out = []
    for kh in known_hits:
        out.append(f"KNOWN-FINDING: property={pid} {kh['key']} :: {kh['what']}")
    for i, f in enumerate(violations):
        path = write_replay(pid, i, f, ctx.repo)
        out.append(f"VIOLATION property={pid} replay={path}")
        out.append(f"  rule={f.rule} at {f.where}: {f.message}")
        out.append(f"  key={f.key}")
        for w in f.witness[-3:]:
            out.append(f"    via {w}")
    extra = {
        "files_analysed": ctx.prog.digests(),
        "functions_in_package": len(ctx.prog.functions),
        "classes_in_package": len(ctx.prog.classes),
        "repo": ctx.repo,
    }
    extra.update(spec.get("extra", lambda c: {})(ctx))
    wall = time.time() - t0
    ev = write_evidence(pid, tier, seed, results, spec["explanation"], spec["assumptions"], wall, len(violations), known_hits, extra)
    if not quiet:
        for r in results:
            print(f"[{pid}] {r.rule}: instances={len(r.instances)} obligations={r.obligations} discharged={r.discharged} "
                  f"findings={len(r.findings)} undecided={len(r.undecided)}")
        for line in out:
            print(line)
        print(f"[{pid}] {tier}: {'FAIL' if violations else 'ok'} in {wall:.2f}s; evidence {ev}")
    return violations, known_hits, results


def main_check(pid, tier, seed, repo=None):
    try:
        violations, _, _ = run_property(pid, tier, seed, repo)
    except AnalysisError as e:
        print(f"ANALYSIS-ERROR property={pid}: {e}")
        return 2
    except Exception:
        print(f"ANALYSIS-ERROR property={pid}: internal error in the analyser")
        traceback.print_exc()
        return 2
    return 1 if violations else 0
