"""Statement-level inlining of same-class / same-module helpers ("flattening").

The recognised-form rules look at the shape of one function.  The commonest behaviour-
preserving refactoring - extract method - moves part of that shape into a private helper.
`flat(prog, func)` undoes it for the calls it can undo *exactly*:

    return H(args)          any helper body (pasted; its returns stay returns)
    T = H(args) | H(args)   helper bodies whose `return`s can be brought into tail position
                            by if/else restructuring (no return inside a loop / try / with)

Parameters bound to constants, names or attribute chains and never rebound in the helper are
substituted; other parameters get a binding statement.  Helper locals that clash with names of
the caller are renamed.  A helper that is overridden in a subclass, is a generator, uses
*args / **kwargs or nested functions, or is recursive is left as a call.  Nothing is executed.
"""

from __future__ import annotations

import ast
import copy

from .program import FuncInfo, Program


def _clone(n):
    """Deep copy of a subtree that does not follow the `_parent` back-link out of it."""
    if isinstance(n, list):
        return [_clone(x) for x in n]
    memo = {}
    p = getattr(n, "_parent", None)
    if p is not None:
        memo[id(p)] = None
    return copy.deepcopy(n, memo)


def _terminates(stmts):
    if not stmts:
        return False
    s = stmts[-1]
    if isinstance(s, (ast.Return, ast.Raise)):
        return True
    if isinstance(s, ast.If):
        return _terminates(s.body) and _terminates(s.orelse)
    return False


def _has_return(node):
    for n in ast.walk(node):
        if isinstance(n, ast.Return):
            return True
    return False


def tailify(stmts):
    """Equivalent statement list in which every `return` is in tail position, or None."""
    out = []
    for i, s in enumerate(stmts):
        if isinstance(s, ast.Return):
            out.append(s)
            return out
        if isinstance(s, ast.Raise):
            out.append(s)
            return out
        if isinstance(s, ast.If) and _has_return(s):
            rest = stmts[i + 1:]
            body = list(s.body) + ([] if _terminates(s.body) else _clone(rest))
            orelse = list(s.orelse) + ([] if _terminates(s.orelse) else _clone(rest))
            tb, te = tailify(body), tailify(orelse)
            if tb is None or te is None:
                return None
            new = ast.If(test=s.test, body=tb or [ast.Pass()], orelse=te)
            ast.copy_location(new, s)
            out.append(new)
            return out
        if _has_return(s):
            return None
        out.append(s)
    return out


def _replace_tail_returns(stmts, make):
    """Replace tail `return E` by make(E) (a list of statements); add make(None) at open ends."""
    if not stmts:
        return make(None)
    *init, last = stmts
    if isinstance(last, ast.Return):
        return init + make(last.value)
    if isinstance(last, ast.Raise):
        return stmts
    if isinstance(last, ast.If) and (_has_return(last)):
        new = ast.If(test=last.test, body=_replace_tail_returns(last.body, make) or [ast.Pass()],
                     orelse=_replace_tail_returns(last.orelse, make))
        ast.copy_location(new, last)
        return init + [new]
    return stmts + make(None)


def _assigned_names(node):
    out = set()
    for n in ast.walk(node):
        if isinstance(n, ast.Name) and isinstance(n.ctx, (ast.Store, ast.Del)):
            out.add(n.id)
        elif isinstance(n, ast.ExceptHandler) and n.name:
            out.add(n.name)
    return out


def _comp_scoped_names(node):
    out = set()
    for n in ast.walk(node):
        if isinstance(n, (ast.ListComp, ast.SetComp, ast.DictComp, ast.GeneratorExp)):
            for g in n.generators:
                for t in ast.walk(g.target):
                    if isinstance(t, ast.Name):
                        out.add(t.id)
    return out


def _all_names(node):
    return {n.id for n in ast.walk(node) if isinstance(n, ast.Name)}


def _pure_arg(e):
    if isinstance(e, ast.Constant):
        return True
    while isinstance(e, ast.Attribute):
        e = e.value
    return isinstance(e, ast.Name)


class _ConstAttr(ast.NodeTransformer):
    """getattr(x, 'a') -> x.a ; setattr(x, 'a', v) as a statement -> x.a = v ; 'a' + 'b' -> 'ab'
    (the forms parameter substitution leaves behind)."""

    def visit_BinOp(self, n):
        self.generic_visit(n)
        if isinstance(n.op, ast.Add) and isinstance(n.left, ast.Constant) and isinstance(n.right, ast.Constant) \
                and isinstance(n.left.value, str) and isinstance(n.right.value, str):
            return ast.copy_location(ast.Constant(value=n.left.value + n.right.value), n)
        return n

    def visit_JoinedStr(self, n):
        self.generic_visit(n)
        if all(isinstance(v, ast.Constant) or (isinstance(v, ast.FormattedValue) and isinstance(v.value, ast.Constant) and isinstance(v.value.value, str)
                                                and v.conversion == -1 and v.format_spec is None) for v in n.values):
            txt = "".join(v.value if isinstance(v, ast.Constant) else v.value.value for v in n.values)
            return ast.copy_location(ast.Constant(value=txt), n)
        return n

    def visit_Call(self, n):
        self.generic_visit(n)
        if isinstance(n.func, ast.Name) and n.func.id == "getattr" and len(n.args) == 2 and not n.keywords \
                and isinstance(n.args[1], ast.Constant) and isinstance(n.args[1].value, str) and n.args[1].value.isidentifier():
            return ast.copy_location(ast.Attribute(value=n.args[0], attr=n.args[1].value, ctx=ast.Load()), n)
        return n

    def visit_Expr(self, s):
        self.generic_visit(s)
        n = s.value
        if isinstance(n, ast.Call) and isinstance(n.func, ast.Name) and n.func.id == "setattr" and len(n.args) == 3 and not n.keywords \
                and isinstance(n.args[1], ast.Constant) and isinstance(n.args[1].value, str) and n.args[1].value.isidentifier():
            tgt = ast.Attribute(value=n.args[0], attr=n.args[1].value, ctx=ast.Store())
            return ast.copy_location(ast.Assign(targets=[tgt], value=n.args[2], lineno=s.lineno), s)
        return s


def _own_jumps(loop):
    """break / continue statements that belong to `loop` itself."""
    out = []

    def visit(n):
        for c in ast.iter_child_nodes(n):
            if isinstance(c, (ast.For, ast.While, ast.AsyncFor, ast.FunctionDef, ast.AsyncFunctionDef, ast.Lambda)):
                continue
            if isinstance(c, (ast.Break, ast.Continue)):
                out.append(c)
            visit(c)
    for s in loop.body:
        if isinstance(s, (ast.Break, ast.Continue)):
            out.append(s)
        elif not isinstance(s, (ast.For, ast.While, ast.AsyncFor)):
            visit(s)
    return out


def _unroll_table_loops(fnode, limit=6):
    """`for a, b in ((X, "k"), (Y, "i")): BODY` over a literal table of constants / names /
    attribute chains, with no break / continue / else, whose targets are not rebound in BODY and
    not used outside the loop, is replaced by one copy of BODY per row with the targets
    substituted (exact: the rows are pure, so evaluating them up front or per copy is the same)."""
    changed = True
    while changed:
        changed = False
        for parent in ast.walk(fnode):
            for fld in ("body", "orelse", "finalbody"):
                blk = getattr(parent, fld, None)
                if not (isinstance(blk, list) and blk and isinstance(blk[0], ast.stmt)):
                    continue
                for i, s in enumerate(blk):
                    if not isinstance(s, ast.For) or s.orelse or not isinstance(s.iter, (ast.Tuple, ast.List)):
                        continue
                    rows = s.iter.elts
                    if not rows or len(rows) > limit or _own_jumps(s):
                        continue
                    if isinstance(s.target, ast.Name):
                        tnames = [s.target.id]
                        vals = [[r] for r in rows]
                    elif isinstance(s.target, (ast.Tuple, ast.List)) and all(isinstance(t, ast.Name) for t in s.target.elts):
                        tnames = [t.id for t in s.target.elts]
                        if not all(isinstance(r, (ast.Tuple, ast.List)) and len(r.elts) == len(tnames) for r in rows):
                            continue
                        vals = [list(r.elts) for r in rows]
                    else:
                        continue
                    if not all(_pure_arg(v) for row in vals for v in row):
                        continue
                    holder = ast.Module(body=s.body, type_ignores=[])
                    if set(tnames) & (_assigned_names(holder) | _comp_scoped_names(holder)):
                        continue
                    if any(isinstance(n, (ast.FunctionDef, ast.AsyncFunctionDef, ast.Lambda)) for n in ast.walk(holder)):
                        continue
                    # values named by the rows must not be rebound in the body (else per-copy evaluation differs)
                    if {n for row in vals for v in row for n in _all_names(v)} & _assigned_names(holder):
                        continue
                    inside = {id(n) for n in ast.walk(s)}
                    if any(isinstance(n, ast.Name) and n.id in tnames and id(n) not in inside for n in ast.walk(fnode)):
                        continue
                    new = []
                    for row in vals:
                        m = dict(zip(tnames, row))

                        class Sub(ast.NodeTransformer):
                            def visit_Name(self, n):
                                if n.id in m and isinstance(n.ctx, ast.Load):
                                    return ast.copy_location(_clone(m[n.id]), n)
                                return n
                        for b in s.body:
                            new.append(Sub().visit(_clone(b)))
                    blk[i:i + 1] = new
                    changed = True
                    break
                if changed:
                    break
            if changed:
                break


def _propagate_str_consts(fnode):
    """Within one statement list, `x = "lit"` reaches the following statements up to the next
    one that stores `x`: loads of `x` there are replaced by the literal (what parameter
    substitution followed by `prefix = name + "."` leaves behind)."""
    for parent in list(ast.walk(fnode)):
        for fld in ("body", "orelse", "finalbody"):
            blk = getattr(parent, fld, None)
            if not (isinstance(blk, list) and blk and isinstance(blk[0], ast.stmt)):
                continue
            for i, s in enumerate(blk):
                if not (isinstance(s, ast.Assign) and len(s.targets) == 1 and isinstance(s.targets[0], ast.Name)
                        and isinstance(s.value, ast.Constant) and isinstance(s.value.value, str)):
                    continue
                x, lit = s.targets[0].id, s.value

                class Sub(ast.NodeTransformer):
                    def visit_Name(self, n):
                        if n.id == x and isinstance(n.ctx, ast.Load):
                            return ast.copy_location(ast.Constant(value=lit.value), n)
                        return n
                for j in range(i + 1, len(blk)):
                    t = blk[j]
                    if x in _assigned_names(t) or x in _comp_scoped_names(t) or any(isinstance(n, (ast.FunctionDef, ast.AsyncFunctionDef, ast.Lambda)) for n in ast.walk(t)):
                        break
                    blk[j] = Sub().visit(t)


class _Flattener:
    def __init__(self, prog: Program, func: FuncInfo, depth=4):
        self.prog = prog
        self.func = func
        self.depth = depth
        self.inlined = []
        self.counter = 0

    # -- resolution ---------------------------------------------------------------------
    def resolve(self, call, stack):
        rt = self.resolve_target(call.func, stack)
        if rt is None:
            return None
        target, bound_self = rt
        if any(isinstance(a, ast.Starred) for a in call.args) or any(k.arg is None for k in call.keywords):
            return None
        # bind
        args = ([bound_self] if bound_self is not None else []) + list(call.args)
        params = target.params
        if len(args) > len([p for p in params if p.kind in ("POSITIONAL_ONLY", "POSITIONAL_OR_KEYWORD")]):
            return None
        binding = {}
        for p, a in zip(params, args):
            binding[p.name] = a
        for k in call.keywords:
            if k.arg in binding or k.arg not in {p.name for p in params}:
                return None
            binding[k.arg] = k.value
        for p in params:
            if p.name not in binding:
                if p.default is None or not isinstance(p.default, ast.Constant):
                    return None
                binding[p.name] = p.default
        return target, binding

    def resolve_target(self, f, stack):
        """(helper FuncInfo, receiver expression or None) for a callee expression that names an
        inlinable private helper of the same module."""
        func = self.func
        target, bound_self = None, None
        if isinstance(f, ast.Name):
            t = func.module.functions.get(f.id)
            if t is not None:
                target = t
        elif isinstance(f, ast.Attribute) and isinstance(f.value, ast.Name) and func.cls is not None:
            recv = f.value.id
            m = None
            if recv in ("self", "cls") and func.params and func.params[0].name == recv:
                m = func.cls.lookup_method(f.attr)
                if m is not None:
                    # dynamic dispatch: only when no subclass overrides it
                    for sub in func.cls.all_subclasses(include_self=False):
                        if f.attr in sub.methods:
                            return None
                    if m.kind in ("method", "classmethod"):
                        bound_self = ast.Name(id=recv, ctx=ast.Load())
                    if m.kind == "method" and func.kind != "method":
                        return None
                    if m.kind == "classmethod" and func.kind == "method":
                        return None   # self.clsmethod(): receiver is type(self), not a name
            else:
                ent = self.prog.resolve_expr(func.module, f.value)
                from .program import ClassInfo
                if isinstance(ent, ClassInfo):
                    m = ent.lookup_method(f.attr)
                    if m is not None and m.kind == "classmethod":
                        bound_self = ast.Name(id=recv, ctx=ast.Load())
                    elif m is not None and m.kind != "staticmethod":
                        return None
            target = m
        if target is None or not isinstance(target, FuncInfo):
            return None
        if target.module is not func.module:
            return None
        if not target.name.startswith("_") or target.name.startswith("__"):
            return None
        if target.qualname == func.qualname or target.qualname in stack:
            return None
        if target.kind in ("property", "classproperty", "setter") or target.is_generator:
            return None
        if target.node.decorator_list and target.kind == "method":
            return None
        for n in ast.walk(target.node):
            if n is not target.node and isinstance(n, (ast.FunctionDef, ast.AsyncFunctionDef, ast.Global, ast.Nonlocal)):
                return None
        if any(p.kind in ("VAR_POSITIONAL", "VAR_KEYWORD") for p in target.params):
            return None
        return target, bound_self

    # -- body preparation ---------------------------------------------------------------
    def prepare(self, target: FuncInfo, binding, caller_names, form, assign_targets):
        body = [_clone(s) for s in target.node.body]
        if body and isinstance(body[0], ast.Expr) and isinstance(body[0].value, ast.Constant) and isinstance(body[0].value.value, str):
            body = body[1:]
        if form != "return":
            body = tailify(body)
            if body is None:
                return None
        holder = ast.Module(body=body, type_ignores=[])
        rebound = _assigned_names(holder) - _comp_scoped_names(holder)
        locals_ = rebound | set(binding)
        subst, binds, rename = {}, [], {}
        for p, a in binding.items():
            same = isinstance(a, ast.Name) and a.id == p
            if p not in rebound and _pure_arg(a):
                if not same:
                    subst[p] = a
                continue
            if same and (form == "return" or p in assign_targets):
                continue   # the caller's variable is dead / overwritten afterwards
            new = p
            if p in caller_names or same:
                self.counter += 1
                new = f"{p}__{target.name.strip('_')}{self.counter}"
            rename[p] = new
            b = ast.Assign(targets=[ast.Name(id=new, ctx=ast.Store())], value=_clone(a), lineno=target.node.lineno, col_offset=0)
            binds.append(b)
        for l in sorted(locals_ - set(binding)):
            if l in caller_names and l not in assign_targets:
                self.counter += 1
                rename[l] = f"{l}__{target.name.strip('_')}{self.counter}"
        # names used by substituted arguments must not be captured by helper locals
        for p, a in subst.items():
            for nm in _all_names(a):
                if nm in locals_ and nm not in rename and nm not in binding:
                    self.counter += 1
                    rename[nm] = f"{nm}__{target.name.strip('_')}{self.counter}"

        class Sub(ast.NodeTransformer):
            def visit_Name(self, n):
                if n.id in subst and isinstance(n.ctx, ast.Load):
                    return _clone(subst[n.id])
                if n.id in rename:
                    return ast.copy_location(ast.Name(id=rename[n.id], ctx=n.ctx), n)
                return n

            def visit_ExceptHandler(self, n):
                self.generic_visit(n)
                if n.name in rename:
                    n.name = rename[n.name]
                return n

            def visit_Lambda(self, n):
                shadow = {a.arg for a in ast.walk(n.args) if isinstance(a, ast.arg)}
                if shadow & (set(subst) | set(rename)):
                    return n    # parameters shadow a substituted / renamed name: leave the lambda alone
                self.generic_visit(n)
                return n
        for lam in [x for x in ast.walk(holder) if isinstance(x, ast.Lambda)]:
            shadow = {a.arg for a in ast.walk(lam.args) if isinstance(a, ast.arg)}
            if shadow & (set(subst) | set(rename)) and (_all_names(lam.body) - shadow) & (set(subst) | set(rename)):
                return None   # both shadowing and capture in one lambda: not worth the case analysis
        holder = Sub().visit(holder)
        return binds + holder.body

    # -- driver -------------------------------------------------------------------------
    def block(self, stmts, caller_names, stack, depth):
        out = []
        for s in stmts:
            out.extend(self.stmt(s, caller_names, stack, depth))
        return out

    def hoist(self, s, caller_names, stack, depth):
        """Nested helper calls evaluated unconditionally inside a simple statement are bound
        to a temporary first (`t = H(..)`), so that the statement forms below apply."""
        if not isinstance(s, (ast.Assign, ast.AugAssign, ast.AnnAssign, ast.Expr, ast.Return)) or depth <= 0:
            return [], s
        top = s.value if isinstance(s, (ast.Assign, ast.Expr, ast.Return)) else None
        found = []

        def visit(n, cond):
            if isinstance(n, (ast.Lambda, ast.ListComp, ast.SetComp, ast.DictComp, ast.GeneratorExp)):
                return
            if isinstance(n, ast.Call) and not cond and n is not top:
                res = self.resolve(n, stack)
                if res is not None:
                    found.append(n)
            if isinstance(n, ast.BoolOp):
                for i, v in enumerate(n.values):
                    visit(v, cond or i > 0)
                return
            if isinstance(n, ast.IfExp):
                visit(n.test, cond)
                visit(n.body, True)
                visit(n.orelse, True)
                return
            for c in ast.iter_child_nodes(n):
                visit(c, cond)
        for c in ast.iter_child_nodes(s):
            if isinstance(c, ast.expr) and not (isinstance(s, ast.Assign) and c in s.targets):
                visit(c, False)
        if not found:
            return [], s
        pre = []
        mapping = {}
        for c in found:
            self.counter += 1
            tmp = f"{self.resolve(c, stack)[0].name.strip('_')}__ret{self.counter}"
            mapping[id(c)] = tmp
            a = ast.Assign(targets=[ast.Name(id=tmp, ctx=ast.Store())], value=c, lineno=s.lineno, col_offset=0)
            pre.append(ast.copy_location(a, s))

        class Rep(ast.NodeTransformer):
            def visit_Call(self, n):
                if id(n) in mapping:
                    return ast.copy_location(ast.Name(id=mapping[id(n)], ctx=ast.Load()), n)
                self.generic_visit(n)
                return n
        s2 = Rep().visit(s)
        return pre, s2

    def stmt(self, s, caller_names, stack, depth):
        pre, s = self.hoist(s, caller_names, stack, depth)
        if pre:
            out = []
            for a in pre:
                out.extend(self.stmt1(a, caller_names | {a.targets[0].id}, stack, depth))
            out.extend(self.stmt1(s, caller_names, stack, depth))
            return out
        return self.stmt1(s, caller_names, stack, depth)

    def stmt1(self, s, caller_names, stack, depth):
        call, form, targets = None, None, set()
        if isinstance(s, ast.Return) and isinstance(s.value, ast.Call):
            call, form = s.value, "return"
        elif isinstance(s, ast.Expr) and isinstance(s.value, ast.Call):
            call, form = s.value, "expr"
        elif isinstance(s, ast.Assign) and len(s.targets) == 1 and isinstance(s.value, ast.Call):
            call, form = s.value, "assign"
            targets = {n.id for n in ast.walk(s.targets[0]) if isinstance(n, ast.Name)}
        if call is not None and depth > 0:
            res = self.resolve(call, stack)
            if res is not None:
                target, binding = res
                body = self.prepare(target, binding, caller_names, form, targets)
                if body is not None:
                    if form == "assign":
                        tgt = s.targets[0]

                        def make(e, tgt=tgt, s=s):
                            v = e if e is not None else ast.Constant(value=None)
                            if isinstance(v, ast.Name) and isinstance(tgt, ast.Name) and v.id == tgt.id:
                                return []
                            return [ast.copy_location(ast.Assign(targets=[_clone(tgt)], value=v, lineno=s.lineno), s)]
                        body = _replace_tail_returns(body, make)
                    elif form == "expr":
                        def make(e, s=s):
                            if e is None or isinstance(e, (ast.Constant, ast.Name)):
                                return []
                            return [ast.copy_location(ast.Expr(value=e), s)]
                        body = _replace_tail_returns(body, make) or [ast.copy_location(ast.Pass(), s)]
                    self.inlined.append(f"{target.qualname} at {form} `{ast.unparse(call)[:60]}`")
                    for b in body:
                        ast.fix_missing_locations(b)
                    names2 = caller_names | _all_names(ast.Module(body=body, type_ignores=[]))
                    return self.block(body, names2, stack | {target.qualname}, depth - 1)
        # recurse into compound statements
        for fld in ("body", "orelse", "finalbody"):
            blk = getattr(s, fld, None)
            if isinstance(blk, list) and blk and isinstance(blk[0], ast.stmt):
                setattr(s, fld, self.block(blk, caller_names, stack, depth))
        if isinstance(s, ast.Try):
            for h in s.handlers:
                h.body = self.block(h.body, caller_names, stack, depth)
        return [s]

    # -- pre-passes -----------------------------------------------------------------------
    def callee_aliases(self, node):
        """`h = Cls._helper` (bound once, at the top level of the body, to an inlinable helper):
        uses of `h` are replaced by the helper's name and the binding is dropped."""
        stores = {}
        for n in ast.walk(node):
            if isinstance(n, ast.Name) and isinstance(n.ctx, (ast.Store, ast.Del)):
                stores[n.id] = stores.get(n.id, 0) + 1
        params = {a.arg for a in ast.walk(node.args) if isinstance(a, ast.arg)}
        amap = {}
        keep = []
        for s in node.body:
            if isinstance(s, ast.Assign) and len(s.targets) == 1 and isinstance(s.targets[0], ast.Name) \
                    and stores.get(s.targets[0].id) == 1 and s.targets[0].id not in params \
                    and isinstance(s.value, (ast.Name, ast.Attribute)) and _pure_arg(s.value):
                rt = self.resolve_target(s.value, frozenset({self.func.qualname}))
                if rt is not None and rt[1] is None:
                    amap[s.targets[0].id] = s.value
                    continue
            keep.append(s)
        if not amap:
            return
        node.body = keep

        class Sub(ast.NodeTransformer):
            def visit_Name(self, n):
                if n.id in amap and isinstance(n.ctx, ast.Load):
                    return ast.copy_location(_clone(amap[n.id]), n)
                return n
        Sub().visit(node)

    def run(self):
        node = _clone(self.func.node)
        self.callee_aliases(node)
        _unroll_table_loops(node)
        names = _all_names(node) | {a.arg for a in ast.walk(node) if isinstance(a, ast.arg)}
        node.body = self.block(node.body, names, frozenset({self.func.qualname}), self.depth)
        if not self.inlined:
            return self.func
        node = _ConstAttr().visit(node)
        _propagate_str_consts(node)
        node = _ConstAttr().visit(node)
        ast.fix_missing_locations(node)
        for parent in ast.walk(node):
            for child in ast.iter_child_nodes(parent):
                child._parent = parent
        node._parent = getattr(self.func.node, "_parent", None)
        f = FuncInfo(self.func.module, self.func.cls, node, self.func.kind)
        f.inlined = list(self.inlined)
        f.original = self.func
        return f


_CACHE = {}


def flat(prog: Program, func: FuncInfo) -> FuncInfo:
    key = (id(prog), func.qualname, id(func.node))
    if key not in _CACHE:
        _CACHE[key] = _Flattener(prog, func).run()
    return _CACHE[key]


def helper_closure(prog: Program, func: FuncInfo, depth=4):
    """func and the private same-module helpers it (transitively) calls, by resolved callee."""
    out, seen = [func], {func.qualname}
    frontier = [func]
    for _ in range(depth):
        nxt = []
        for g in frontier:
            fl = _Flattener(prog, g)
            gnode = _clone(g.node)
            try:
                fl.callee_aliases(gnode)
            except Exception:
                gnode = g.node
            for n in ast.walk(gnode):
                if isinstance(n, ast.Call):
                    res = None
                    try:
                        fl.func = g
                        res = fl.resolve(n, frozenset())
                    except Exception:
                        res = None
                    if res is not None and res[0].qualname not in seen:
                        seen.add(res[0].qualname)
                        out.append(res[0])
                        nxt.append(res[0])
        frontier = nxt
    return out
