#!/bin/sh
# scratch.sh <case-dir>: make a scratch worktree with the case's patch applied under /tmp/vs_<case>; prints path.
# Remove with: git -C /repo worktree remove --force /tmp/vs_<case>
set -e
c=$(basename "$1")
d=/tmp/vs_$c
git -C /repo worktree remove --force $d 2>/dev/null || true
git -C /repo worktree add -q --detach $d HEAD
git -C $d apply "$(realpath $1)/patch.diff"
echo $d
