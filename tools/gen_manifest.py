#!/venv/bin/python
"""Regenerate /verif/MANIFEST.json from vstatic.properties (single source of truth)."""
import json, os, sys
sys.path.insert(0, os.path.dirname(os.path.dirname(os.path.abspath(__file__))))
from vstatic.properties import PROPERTIES, NOT_APPLICABLE, MANIFEST_TEXT

ALL = [f"C{i:02d}" for i in range(1, 21)]
checks = []
for pid in sorted(PROPERTIES):
    t = MANIFEST_TEXT[pid]
    checks.append({
        "property_id": pid,
        "quick_cmd": f"/venv/bin/python -m vstatic check {pid} --tier quick",
        "thorough_cmd": f"/venv/bin/python -m vstatic check {pid} --tier thorough",
        "evidence_file": f"/verif/evidence/{pid}.json",
        "replay_cmd_template": "/venv/bin/python -m vstatic replay {path}",
        "engine": "vstatic",
        "level_claimed": {"category": "other", "text": t["level"], "design_ref": f"DESIGN.md section 5, {pid}"},
        "level_note": t["note"],
        "technique": t["technique"],
    })
na = []
for pid in ALL:
    if pid in PROPERTIES:
        continue
    na.append({"property_id": pid, "reason": NOT_APPLICABLE.get(pid, "static check for this property is not built yet in this commit; no verdict is claimed (DESIGN.md section 5 describes the planned rules)")})
man = {
    "version": 1,
    "setup_cmd": "/venv/bin/python -m compileall -q vstatic && /venv/bin/python -m vstatic selfcheck",
    "hooks": {
        "guard": "HPCFLOW_VALIDA_VERIF",
        "enable": "no hooks: the checks are static and parse /repo/valida/*.py as they are; nothing in /repo reads the guard variable",
        "baseline_off_cmd": "cd /repo && /venv/bin/python -m pytest -ra -q -p no:cacheprovider --timeout=900 --continue-on-collection-errors",
        "source_commits": [],
        "add_only": True,
    },
    "engines": [{
        "name": "vstatic",
        "path": "/verif/vstatic",
        "serves_properties": sorted(PROPERTIES),
        "kind_free_text": "repository-specific static analyser on the stdlib ast module: program model with C3 MRO, context-sensitive abstract interpreter (types x origins x taint) for exception-effect and mutation/escape rules, table / signature / sibling-agreement rules, finite evaluation of small pure expressions, HTML template analysis",
    }],
    "checks": checks,
    "not_applicable": na,
    "notes": "All checks are static (no import or execution of valida). Exit 0 = every rule instance discharged (or matched a listed known finding, printed as KNOWN-FINDING); exit 1 + VIOLATION line otherwise; exit 2 + ANALYSIS-ERROR when an anchor vanished or the analyser failed. VSTATIC_REPO overrides the analysed tree (default /repo) for scratch-copy testing.",
}
with open(os.path.join(os.path.dirname(os.path.dirname(os.path.abspath(__file__))), "MANIFEST.json"), "w") as fh:
    json.dump(man, fh, indent=1)
print("MANIFEST.json:", len(checks), "checks,", len(na), "not applicable")
