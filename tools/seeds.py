#!/venv/bin/python
"""Seeded-mutation bookkeeping.
  seeds.py import <seed-dir> <prop> <mN> <needs-text>   verify a sub-agent's mutation in a scratch worktree and keep it under /verif/seeded/
  seeds.py run [<case> ...]                              run the claimed checks against a scratch copy of /repo with each kept patch applied
"""
import json, os, shutil, subprocess, sys, tempfile

VERIF = os.path.dirname(os.path.dirname(os.path.abspath(__file__)))
SEEDED = os.path.join(VERIF, "seeded")
PY = "/venv/bin/python"


def sh(cmd, cwd=None, env=None):
    r = subprocess.run(cmd, shell=True, cwd=cwd, env=env, capture_output=True, text=True)
    return r.returncode, r.stdout + r.stderr


def scratch_repo():
    d = tempfile.mkdtemp(prefix="vseed_")
    rc, out = sh(f"git -C /repo worktree add -q --detach {d}/wt HEAD")
    if rc:
        raise SystemExit(out)
    return d, os.path.join(d, "wt")


def drop(d):
    sh(f"git -C /repo worktree remove --force {d}/wt")
    shutil.rmtree(d, ignore_errors=True)
    sh("git -C /repo worktree prune")


def do_import(seed_dir, prop, m, needs):
    patch = os.path.join(seed_dir, f"{m}.diff")
    demo = os.path.join(seed_dir, f"demo_{m}.py")
    d, wt = scratch_repo()
    try:
        ran = []
        shutil.copy(demo, os.path.join(wt, "demo_seed.py"))
        demo_run = "demo_seed.py"
        rc, out = sh(f"{PY} {demo_run}", cwd=wt)
        ran.append(("demo on clean tree", rc))
        assert rc == 0, "demo must pass on the clean tree:\n" + out[-800:]
        rc, out = sh(f"git apply {patch}", cwd=wt)
        assert rc == 0, out
        rc, out = sh(f"{PY} -m pytest -q -p no:cacheprovider --timeout=900 tests", cwd=wt)
        tail = out.strip().splitlines()[-1]
        ran.append(("suite with patch", tail))
        assert rc == 0 and "266 passed" in tail, tail
        rc, out = sh(f"{PY} {demo_run}", cwd=wt)
        ran.append(("demo with patch", rc))
        assert rc != 0, "demo must fail with the patch"
        dest = os.path.join(SEEDED, f"{prop}-{m}")
        os.makedirs(dest, exist_ok=True)
        shutil.copy(patch, os.path.join(dest, "patch.diff"))
        shutil.copy(demo, os.path.join(dest, "demo.py"))
        base = subprocess.run("git -C /repo rev-parse --short HEAD", shell=True, capture_output=True, text=True).stdout.strip()
        meta = {"property": prop, "needs_to_manifest": needs, "base_commit": base,
                "confirmed": [f"{a}: {b}" for a, b in ran],
                "how": "scratch worktree of /repo HEAD: demo passes; git apply patch; unedited suite 266 passed; demo fails"}
        json.dump(meta, open(os.path.join(dest, "meta.json"), "w"), indent=1)
        print("kept", dest)
    finally:
        drop(d)


def do_run(cases):
    man = json.load(open(os.path.join(VERIF, "MANIFEST.json")))
    claimed = [c["property_id"] for c in man["checks"]]
    cases = cases or sorted(c for c in os.listdir(SEEDED) if os.path.isdir(os.path.join(SEEDED, c)))
    rows = []
    results = {}
    for case in cases:
        cdir = os.path.join(SEEDED, case)
        if not os.path.isdir(cdir):
            continue
        meta = json.load(open(os.path.join(cdir, "meta.json")))
        if meta.get("verified_status", "valid") != "valid":
            print(f"{case:12s} RETIRED ({meta['verified_status']})")
            results[case] = {"property": meta["property"], "status": "RETIRED: " + meta["verified_status"], "fired": [], "errors": [], "own_rules": [], "needs": meta["needs_to_manifest"]}
            continue
        d, wt = scratch_repo()
        try:
            rc, out = sh(f"git apply {cdir}/patch.diff", cwd=wt)
            if rc:
                rows.append((case, meta["property"], "PATCH DOES NOT APPLY", ""))
                print(f"{case:12s} PATCH DOES NOT APPLY")
                results[case] = {"property": meta["property"], "status": "PATCH DOES NOT APPLY", "fired": [], "errors": [], "own_rules": [], "needs": meta["needs_to_manifest"]}
                continue
            fired, errs = [], []
            procs = {}
            for pid in claimed:
                procs[pid] = subprocess.Popen([PY, "-m", "vstatic", "check", pid], cwd=VERIF, env={**os.environ, "VSTATIC_REPO": wt, "VSTATIC_EVIDENCE_DIR": os.path.join(d, "ev")},
                                              stdout=subprocess.PIPE, stderr=subprocess.STDOUT, text=True)
            detail = []
            for pid, p in procs.items():
                out, _ = p.communicate()
                if p.returncode == 1:
                    fired.append(pid)
                    detail += [f"    {pid}: " + l.strip()[:230] for l in out.splitlines() if l.startswith("  rule=")][:3]
                elif p.returncode != 0:
                    errs.append(pid)
                    detail.append(f"    {pid}: ERROR " + out.strip().splitlines()[-1][:200])
            own = meta["property"] in fired
            rows.append((case, meta["property"], ("CAUGHT" if own else ("caught-by-other" if fired else "MISSED")) + (" ERR:" + ",".join(errs) if errs else ""), ",".join(fired)))
            print(f"{case:12s} {rows[-1][2]:18s} fired={rows[-1][3]}")
            for l in detail:
                print(l)
            own_rules = sorted({l.split("rule=")[1].split(" ")[0] for l in detail if l.strip().startswith(meta["property"] + ":") and "rule=" in l})
            results[case] = {"property": meta["property"], "status": rows[-1][2], "fired": fired, "errors": errs, "own_rules": own_rules, "needs": meta["needs_to_manifest"]}
        finally:
            drop(d)
    resf = os.path.join(SEEDED, "RESULTS.json")
    allres = json.load(open(resf)) if os.path.exists(resf) else {}
    allres.update(results)
    json.dump(allres, open(resf, "w"), indent=1, sort_keys=True)
    return rows


NEUTRAL = os.path.join(VERIF, "seeded_neutral")


def do_import_neutral(seed_dir, tag):
    for fn in sorted(os.listdir(seed_dir)):
        if not (fn.startswith("n") and fn.endswith(".diff")):
            continue
        d, wt = scratch_repo()
        try:
            rc, out = sh(f"git apply {os.path.join(seed_dir, fn)}", cwd=wt)
            if rc:
                print("does not apply:", fn, out[-200:]); continue
            rc, out = sh(f"{PY} -m pytest -q -p no:cacheprovider --timeout=900 tests", cwd=wt)
            tail = out.strip().splitlines()[-1]
            if rc or "266 passed" not in tail:
                print("suite not green:", fn, tail); continue
            dest = os.path.join(NEUTRAL, f"{tag}-{fn[:-5]}")
            os.makedirs(dest, exist_ok=True)
            shutil.copy(os.path.join(seed_dir, fn), os.path.join(dest, "patch.diff"))
            json.dump({"kind": "behaviour-preserving refactoring by an independent sub-agent", "confirmed": f"applies to /repo HEAD; suite with patch: {tail}"}, open(os.path.join(dest, "meta.json"), "w"), indent=1)
            print("kept", dest)
        finally:
            drop(d)


def do_run_neutral(cases):
    man = json.load(open(os.path.join(VERIF, "MANIFEST.json")))
    claimed = [c["property_id"] for c in man["checks"]]
    for case in cases or sorted(os.listdir(NEUTRAL)):
        cdir = os.path.join(NEUTRAL, case)
        d, wt = scratch_repo()
        try:
            rc, out = sh(f"git apply {cdir}/patch.diff", cwd=wt)
            if rc:
                print(f"{case:12s} PATCH DOES NOT APPLY"); continue
            procs = {pid: subprocess.Popen([PY, "-m", "vstatic", "check", pid], cwd=VERIF, env={**os.environ, "VSTATIC_REPO": wt, "VSTATIC_EVIDENCE_DIR": os.path.join(d, "ev")},
                                           stdout=subprocess.PIPE, stderr=subprocess.STDOUT, text=True) for pid in claimed}
            bad = []
            for pid, p in procs.items():
                out, _ = p.communicate()
                if p.returncode != 0:
                    lines = [l.strip()[:240] for l in out.splitlines() if l.startswith("  rule=") or "ANALYSIS-ERROR" in l][:3]
                    bad.append((pid, p.returncode, lines))
            print(f"{case:12s} {'silent' if not bad else 'ALARM: ' + ','.join(f'{p}(rc={rc})' for p, rc, _ in bad)}")
            for pid, rc, lines in bad:
                for l in lines:
                    print(f"    {pid}: {l}")
        finally:
            drop(d)


def do_verify(cases):
    """Re-confirm every kept seed against the current /repo HEAD: patch applies, suite green, demo fails."""
    base = subprocess.run("git -C /repo rev-parse --short HEAD", shell=True, capture_output=True, text=True).stdout.strip()
    for case in cases or sorted(c for c in os.listdir(SEEDED) if os.path.isdir(os.path.join(SEEDED, c))):
        cdir = os.path.join(SEEDED, case)
        meta = json.load(open(os.path.join(cdir, "meta.json")))
        d, wt = scratch_repo()
        try:
            shutil.copy(os.path.join(cdir, "demo.py"), os.path.join(wt, "demo_seed.py"))
            rc0, _ = sh(f"{PY} demo_seed.py", cwd=wt)
            rc, out = sh(f"git apply {cdir}/patch.diff", cwd=wt)
            if rc:
                status = "patch does not apply"
            else:
                rcs, outs = sh(f"{PY} -m pytest -q -p no:cacheprovider --timeout=900 tests", cwd=wt)
                tail = outs.strip().splitlines()[-1]
                rcd, _ = sh(f"{PY} demo_seed.py", cwd=wt)
                if rc0 != 0:
                    status = "demo fails on the clean tree"
                elif rcs or "266 passed" not in tail:
                    status = f"suite not green: {tail}"
                elif rcd == 0:
                    status = "demo passes with the patch (no longer breaking)"
                else:
                    status = "valid"
            meta["verified_against"] = base
            meta["verified_status"] = status
            json.dump(meta, open(os.path.join(cdir, "meta.json"), "w"), indent=1)
            if status != "valid":
                print(f"{case:12s} {status}")
        finally:
            drop(d)
    print("verify done against", base)


if __name__ == "__main__":
    if sys.argv[1] == "verify":
        do_verify(sys.argv[2:])
    elif sys.argv[1] == "import-neutral":
        do_import_neutral(sys.argv[2], sys.argv[3])
    elif sys.argv[1] == "run-neutral":
        do_run_neutral(sys.argv[2:])
    elif sys.argv[1] == "import":
        do_import(*sys.argv[2:6])
    else:
        do_run(sys.argv[2:])
