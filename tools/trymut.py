#!/venv/bin/python
"""Dev helper: apply textual edits to a scratch copy of /repo/valida and run checks on it.
usage: trymut.py <props comma sep> <file> <old> <new> [<file> <old> <new> ...]"""
import os, shutil, subprocess, sys, tempfile
props = sys.argv[1].split(",")
edits = sys.argv[2:]
d = tempfile.mkdtemp(prefix="vmut_")
try:
    shutil.copytree("/repo/valida", os.path.join(d, "valida"))
    for i in range(0, len(edits), 3):
        f, old, new = edits[i:i+3]
        p = os.path.join(d, "valida", f)
        s = open(p).read()
        if old not in s:
            print("EDIT DOES NOT APPLY:", old); sys.exit(3)
        open(p, "w").write(s.replace(old, new, 1))
    import py_compile
    for f in os.listdir(os.path.join(d, "valida")):
        if f.endswith(".py"):
            py_compile.compile(os.path.join(d, "valida", f), doraise=True)
    for pid in props:
        r = subprocess.run(["/venv/bin/python", "-m", "vstatic", "check", pid], cwd="/verif", env={**os.environ, "VSTATIC_REPO": d}, capture_output=True, text=True)
        lines = [l for l in r.stdout.splitlines() if l.startswith(("VIOLATION", "  rule=", "ANALYSIS", "KNOWN"))]
        print(f"== {pid} rc={r.returncode}")
        for l in lines[:12]:
            print(l[:260])
        if r.returncode == 2:
            print(r.stdout[-1500:], r.stderr[-1500:])
finally:
    shutil.rmtree(d, ignore_errors=True)
