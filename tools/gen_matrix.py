#!/venv/bin/python
"""Write seeded/MATRIX.md (and print it) from seeded/RESULTS.json + meta.json: which checks report which seeded change."""
import json, os
V = os.path.dirname(os.path.dirname(os.path.abspath(__file__)))
S = os.path.join(V, "seeded")
res = json.load(open(os.path.join(S, "RESULTS.json")))
rows = []
for case in sorted(c for c in os.listdir(S) if os.path.isdir(os.path.join(S, c))):
    meta = json.load(open(os.path.join(S, case, "meta.json")))
    r = res.get(case, {})
    st = r.get("status", "?")
    own = ", ".join(r.get("own_rules", [])) or "-"
    others = [p for p in r.get("fired", []) if p != meta["property"]]
    if st.startswith("CAUGHT"):
        verdict = f"{meta['property']} ({own})" + (f"; also {' '.join(others)}" if others else "")
    elif st.startswith("caught-by-other"):
        verdict = f"not by {meta['property']}; by {' '.join(others)}"
    elif st.startswith("RETIRED"):
        verdict = "retired: " + st[9:]
    else:
        verdict = "**missed**"
    needs = meta["needs_to_manifest"].replace("|", "\\|")
    rows.append(f"| {case} | {needs} | {verdict} |")
out = ["| change | what it needs to show | reported by |", "|---|---|---|"] + rows
open(os.path.join(S, "MATRIX.md"), "w").write("\n".join(out) + "\n")
print("\n".join(out))
