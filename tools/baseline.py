#!/venv/bin/python
"""Development aid: record / compare per-rule obligation and undecided counts from /verif/evidence
(after a full run on /repo), so that a rule silently sliding into `undecided` is noticed.
  baseline.py save | check"""
import json, os, sys, glob
V = os.path.dirname(os.path.dirname(os.path.abspath(__file__)))
B = os.path.join(V, "tools", "baseline.json")


def current():
    out = {}
    for f in sorted(glob.glob(os.path.join(V, "evidence", "C*.json"))):
        e = json.load(open(f))
        out[e["property_id"]] = {r["rule"]: [r["instances"], r["obligations"], r["discharged"], len(r["undecided"])] for r in e["coverage"]["per_rule"]}
    return out


if sys.argv[1] == "save":
    json.dump(current(), open(B, "w"), indent=1, sort_keys=True)
    print("saved", B)
else:
    base, cur = json.load(open(B)), current()
    bad = 0
    for pid in sorted(base):
        for rule, (i, o, d, u) in base[pid].items():
            c = cur.get(pid, {}).get(rule)
            if c is None:
                print(f"{pid} {rule}: MISSING"); bad += 1
            elif c[3] > u or c[1] < o:
                print(f"{pid} {rule}: instances {i}->{c[0]} obligations {o}->{c[1]} undecided {u}->{c[3]}"); bad += 1
    print("drift:" if bad else "no drift", bad)
    sys.exit(1 if bad else 0)
